"""Harness API shared by all property modules.

A harness is a function ``run(c, **params)`` written once and executed in two modes:

* symbolic (``SymCtx``): inputs are solver variables, repo functions are interpreted from their AST by
  ``symex.interp``, ``c.check`` asks z3 for a counterexample on the current path;
* native (``NativeCtx``): inputs are concrete values (a path model or a counterexample), repo functions
  run natively (CPython), environment stubs are patched into the modules, ``c.check`` is an ordinary test.

The native mode is what "replays" counterexamples against the real code and what validates, path by path,
that the symbolic executor agrees with CPython on the outcome.
"""
from __future__ import annotations

import os

import contextlib
import hashlib
import sys
import types

from symex import values as V
from symex.engine import Engine, PathAbort
from symex.interp import Interp

HARNESSES = {}  # property id -> list[Harness]


class Harness:
    def __init__(self, prop, name, fn, *, params=None, raises=(), budget_violation=False, max_steps=200000, tiers=("quick", "thorough"),
                 bounds="", outside="", must_reach=(), native_step_limit=2_000_000, weight=1, compare_result=True, per_job=False):
        self.prop, self.name, self.fn = prop, name, fn
        self.params = params if params is not None else [{}]
        self.raises = tuple(raises)
        self.budget_violation = budget_violation
        self.max_steps = max_steps
        self.tiers = tiers
        self.bounds, self.outside = bounds, outside
        self.must_reach = tuple(must_reach)
        self.native_step_limit = native_step_limit
        self.weight = weight
        self.compare_result = compare_result
        self.per_job = per_job  # every parameter set must reach the must_reach labels on some feasible path

    def jobs(self, tier):
        ps = self.params(tier) if callable(self.params) else self.params
        return [dict(p) for p in ps]


def harness(prop, name=None, **kw):
    def deco(fn):
        h = Harness(prop, name or fn.__name__, fn, **kw)
        HARNESSES.setdefault(prop, []).append(h)
        return fn

    return deco


# ---------------------------------------------------------------------------------------------- contexts


class NativeAssumeFailed(Exception):
    pass


class NativeCheckFailed(Exception):
    def __init__(self, label):
        super().__init__(label)
        self.label = label


class NativeBudget(BaseException):
    pass


class SymCtx:
    symbolic = True

    def __init__(self, engine: Engine, interp: Interp):
        self.e, self.it = engine, interp
        self.notes = {}

    def int(self, name, lo, hi):
        return self.e.fresh_int(name, lo, hi)

    def bool(self, name):
        return self.e.fresh_bool(name)

    def bytes(self, name, n):
        return self.e.fresh_bytes(name, n)

    def blob(self, name, lo, hi):
        """opaque byte string whose length is a solver variable in [lo, hi]; -> (blob, length)"""
        n = self.e.fresh_int(name + "_len", lo, hi)
        if isinstance(n, V.SymInt):
            # witnesses (path models, counterexamples) with a small length when the path allows one: the native runs materialise the bytes
            def small(eng, n=n):
                for bound in (4096, 1 << 17, 1 << 20, 1 << 22, 1 << 25):  # the smallest class that the path (or the violation) allows
                    q = n <= bound
                    eng.prefer(q.t if isinstance(q, V.SymBool) else None)

            self.e.at_path_end.append(small)
        return V.SymBlob.opaque(name, n), n

    def blob_of_len(self, name, n):
        """opaque byte string of the given (possibly symbolic) length"""
        if isinstance(n, int):
            return self.bytes(name, n)
        return V.SymBlob.opaque(name, n)

    def assume(self, cond):
        self.e.assume(cond)

    def check(self, cond, label):
        return self.e.check(cond, label)

    def reach(self, label):
        self.e.reach(label)

    def call(self, fn, *a, **k):
        return self.it.call(fn, *a, **k)

    def call_async(self, fn, *a, **k):
        """call an ``async def`` of the repo to completion (awaits are driven inline)"""
        return self.it._await(self.it.call(fn, *a, **k))

    def interpret(self, fn, *a, **k):
        """interpret a harness-local function (so that repo code it calls sees the proxies through the interpreter)"""
        return self.it.run_function(fn, a, k)

    def stubs(self, pairs):
        self.it.set_stubs(pairs)

    def count(self, name, n=1):
        return self.e.count(name, n)

    def counter(self, name):
        return self.e.counters.get(name, 0)

    def concretize(self, v):
        return self.e.concretize(v)


class NativeCtx:
    symbolic = False

    def __init__(self, inputs, step_limit=2_000_000):
        self.inputs = inputs
        self.failed = None
        self.reached = []
        self.counters = {}
        self._patches = []
        self.step_limit = step_limit
        self.steps = 0
        self.notes = {}

    def _val(self, name, default):
        if name in self.inputs:
            return self.inputs[name]
        h = hashlib.sha256(name.encode()).digest()
        return default(h)

    def int(self, name, lo, hi):
        if lo == hi:
            return lo
        from symex.engine import default_value

        v = self.inputs[name] if name in self.inputs else default_value(name, lo, hi)
        if not lo <= v <= hi:
            raise NativeAssumeFailed(f"{name}={v} outside [{lo},{hi}]")
        return v

    def bool(self, name):
        return bool(self._val(name, lambda h: h[0] & 1))

    def bytes(self, name, n):
        return bytes(self.int(f"{name}[{i}]", 0, 255) for i in range(n))

    def blob(self, name, lo, hi):
        n = self.int(name + "_len", lo, hi)
        return self.blob_of_len(name, n), n

    def blob_of_len(self, name, n):
        if n > (1 << 25 if getattr(self, "big", False) else 1 << 22):  # 32 MiB when a counterexample is replayed, 4 MiB for the per-path cross-check
            raise NativeAssumeFailed(f"a byte string of {n} bytes is not materialised natively")
        return hashlib.shake_256(name.encode()).digest(n) if n else b""

    def assume(self, cond):
        if not cond:
            raise NativeAssumeFailed()

    def check(self, cond, label):
        self.reached.append(label)
        if not cond:
            raise NativeCheckFailed(label)
        return True

    def reach(self, label):
        self.reached.append(label)

    def call(self, fn, *a, **k):
        return fn(*a, **k)

    def interpret(self, fn, *a, **k):
        return fn(*a, **k)

    def call_async(self, fn, *a, **k):
        import asyncio

        return asyncio.run(fn(*a, **k))

    def count(self, name, n=1):
        self.counters[name] = self.counters.get(name, 0) + n
        return self.counters[name]

    def counter(self, name):
        return self.counters.get(name, 0)

    def concretize(self, v):
        return v

    # -- stubs are patched into the modules for the duration of the run
    def stubs(self, pairs):
        if self._patches:
            raise RuntimeError("stubs() must be called once per run (module attributes are already patched)")
        if isinstance(pairs, dict):
            pairs = list(pairs.items())
        for orig, repl in pairs:
            self._patch(orig, repl)

    def _patch(self, orig, repl):
        import builtins

        seen = set()

        def scan(mod, depth):
            if id(mod) in seen:
                return
            seen.add(id(mod))
            for name, val in list(vars(mod).items()):
                if val is orig:
                    self._patches.append((mod, name, val, True))
                    setattr(mod, name, repl)
                elif isinstance(val, types.ModuleType) and depth > 0 and not val.__name__.startswith("dpapi_ng"):
                    scan(val, depth - 1)

        targets = [m for n, m in list(sys.modules.items()) if m is not None and (n == "dpapi_ng" or n.startswith("dpapi_ng."))]
        for m in targets:
            scan(m, 2)
        if isinstance(orig, types.FunctionType):
            # methods / classmethods / staticmethods of repo classes: the replacement is installed as a staticmethod
            for m in targets:
                for cls in list(vars(m).values()):
                    if isinstance(cls, type) and cls.__module__ == m.__name__:
                        for name, val in list(vars(cls).items()):
                            if getattr(val, "__func__", val) is orig:
                                self._patches.append((cls, name, val, True))
                                setattr(cls, name, staticmethod(repl))
        if getattr(builtins, getattr(orig, "__name__", ""), None) is orig:
            for m in targets:
                if orig.__name__ not in vars(m):
                    self._patches.append((m, orig.__name__, None, False))
                    setattr(m, orig.__name__, repl)

    def unpatch(self):
        for mod, name, val, existed in reversed(self._patches):
            if existed:
                setattr(mod, name, val)
            else:
                try:
                    delattr(mod, name)
                except AttributeError:
                    pass
        self._patches = []


def _tracer_factory(ctx, prefix=None):
    if prefix is None:
        import dpapi_ng

        prefix = os.path.dirname(os.path.abspath(dpapi_ng.__file__))

    def tracer(frame, event, arg):
        if not frame.f_code.co_filename.startswith(prefix):
            return None

        def local(frame, event, arg):
            if event == "line":
                ctx.steps += 1
                if ctx.steps > ctx.step_limit:
                    raise NativeBudget()
            return local

        return local

    return tracer


class NativeOutcome:
    def __init__(self, kind, value, failed_label=None, reached=(), steps=0):
        self.kind, self.value, self.failed_label, self.reached, self.steps = kind, value, failed_label, reached, steps

    def __repr__(self):
        return f"<native {self.kind} {self.value!r} failed={self.failed_label}>"


class ModuleState:
    """module-level mutable containers of the repository (registries, and any cache a change might introduce) are restored to their
    import-time contents before every path and every native run, so that runs are independent of each other"""

    _snap = None
    _scalars = None
    SCALAR = (int, float, str, bytes, bool, tuple, frozenset, type(None))

    @classmethod
    def _targets(cls):
        for n, m in list(sys.modules.items()):
            if m is not None and (n == "dpapi_ng" or n.startswith("dpapi_ng.")):
                for k, v in list(vars(m).items()):
                    if isinstance(v, (dict, list, set)) and not k.startswith("__"):
                        yield m, k, v

    @classmethod
    def snapshot(cls):
        if cls._snap is None:
            cls._snap = {}
            for m, k, v in cls._targets():
                cls._snap[(m.__name__, k)] = (v, type(v)(v))
            cls._scalars = {}
            # module-level instances of the repository's own classes (pools, registries as objects): their attributes
            import enum as _enum

            cls._objects = []
            for n, m in list(sys.modules.items()):
                if m is not None and (n == "dpapi_ng" or n.startswith("dpapi_ng.")):
                    for k, v in list(vars(m).items()):
                        if (type(v).__module__ or "").startswith("dpapi_ng") and hasattr(v, "__dict__") and not isinstance(v, (type, types.FunctionType, types.ModuleType, _enum.Enum)):
                            cls._objects.append((v, cls._copy_attrs(v.__dict__)))
            for n, m in list(sys.modules.items()):
                if m is not None and (n == "dpapi_ng" or n.startswith("dpapi_ng.")):
                    for k, v in list(vars(m).items()):
                        if isinstance(v, cls.SCALAR) and not k.startswith("__"):
                            cls._scalars[(n, k)] = v

    @classmethod
    def capture(cls):
        """the current module-level state of the library (what a fork() would duplicate): containers, rebound scalars, attributes of module-level objects"""
        import enum as _enum

        snap = dict(containers={}, scalars={}, objects=[])
        for n, m in list(sys.modules.items()):
            if m is not None and (n == "dpapi_ng" or n.startswith("dpapi_ng.")):
                for k, v in list(vars(m).items()):
                    if k.startswith("__"):
                        continue
                    if isinstance(v, (dict, list, set)):
                        snap["containers"][(n, k)] = (v, type(v)(v))
                    elif isinstance(v, cls.SCALAR):
                        snap["scalars"][(n, k)] = v
                    elif (type(v).__module__ or "").startswith("dpapi_ng") and hasattr(v, "__dict__") and not isinstance(v, (type, types.FunctionType, types.ModuleType, _enum.Enum)):
                        snap["objects"].append((v, cls._copy_attrs(v.__dict__)))
        return snap

    @classmethod
    def apply(cls, snap):
        for (n, k), (obj, copy_) in snap["containers"].items():
            obj.clear()
            (obj.update if isinstance(obj, (dict, set)) else obj.extend)(type(obj)(copy_))
            setattr(sys.modules[n], k, obj)
        for (n, k), v in snap["scalars"].items():
            if vars(sys.modules[n]).get(k, v) is not v:
                setattr(sys.modules[n], k, v)
        for obj, attrs in snap["objects"]:
            obj.__dict__.clear()
            obj.__dict__.update(cls._copy_attrs(attrs))

    @staticmethod
    def _copy_attrs(d):
        return {k: (type(v)(v) if isinstance(v, (dict, list, set, bytearray)) else v) for k, v in d.items()}

    @classmethod
    def restore(cls):
        cls.snapshot()
        for obj, attrs in cls._objects:
            try:
                obj.__dict__.clear()
                obj.__dict__.update(cls._copy_attrs(attrs))
            except Exception:
                pass
        # functools.lru_cache / cache wrappers keep state between calls: empty them
        for n, m in list(sys.modules.items()):
            if m is not None and (n == "dpapi_ng" or n.startswith("dpapi_ng.")):
                for v in list(vars(m).values()):
                    if type(v).__name__ == "_lru_cache_wrapper":
                        v.cache_clear()
        # module-level scalars rebound through a `global` statement (counters, flags)
        for (n, k), v in cls._scalars.items():
            m = sys.modules.get(n)
            if m is not None and vars(m).get(k, v) is not v:
                setattr(m, k, v)
        for m, k, v in cls._targets():
            key = (m.__name__, k)
            if key in cls._snap:
                obj, pristine = cls._snap[key]
                if obj is v and v != pristine:
                    v.clear()
                    (v.update if isinstance(v, (dict, set)) else v.extend)(pristine)
            else:
                # a container that did not exist at import time: empty it
                try:
                    v.clear()
                except Exception:
                    pass


def run_native(h: Harness, params, inputs, step_limit=None, measure=False, big=False):
    """run the harness natively on concrete inputs; returns NativeOutcome(kind in return/raise/budget/assume/checkfail)"""
    ModuleState.restore()
    ctx = NativeCtx(inputs, step_limit or h.native_step_limit)
    ctx.big = big
    old = sys.gettrace()
    prev_engine = Engine.current
    Engine.current = None
    import tracemalloc

    measure = measure and h.budget_violation  # allocation accounting is slow: only when a budget overrun is being confirmed
    import signal
    import threading

    def _alarm(signum, frame):
        raise NativeBudget()

    use_alarm = threading.current_thread() is threading.main_thread()
    try:
        if measure:
            tracemalloc.start()
        if use_alarm:
            # wall-clock bound as well: code that loops without executing new source lines (inlined comprehensions) is not seen by the line counter
            old_handler = signal.signal(signal.SIGALRM, _alarm)
            signal.setitimer(signal.ITIMER_REAL, getattr(h, "native_wall_limit", 30.0))
        sys.settrace(_tracer_factory(ctx))
        old_limit = sys.getrecursionlimit()
        import inspect as _inspect

        sys.setrecursionlimit(len(_inspect.stack(0)) + 1000)  # the library runs under CPython's default limit, counted from here
        try:
            v = h.fn(ctx, **params)
            if measure and tracemalloc.get_traced_memory()[1] > V.ALLOC_CAP:
                return NativeOutcome("budget", f"peak allocation {tracemalloc.get_traced_memory()[1]} bytes", None, ctx.reached, ctx.steps)
            return NativeOutcome("return", v, None, ctx.reached, ctx.steps)
        except NativeAssumeFailed as e:
            return NativeOutcome("assume", e, None, ctx.reached, ctx.steps)
        except NativeCheckFailed as e:
            return NativeOutcome("checkfail", None, e.label, ctx.reached, ctx.steps)
        except NativeBudget:
            return NativeOutcome("budget", None, None, ctx.reached, ctx.steps)
        except RecursionError as e:
            return NativeOutcome("raise", e, None, ctx.reached, ctx.steps)
        except MemoryError:
            return NativeOutcome("budget", "MemoryError", None, ctx.reached, ctx.steps)
        except Exception as e:
            if measure and tracemalloc.get_traced_memory()[1] > V.ALLOC_CAP:
                return NativeOutcome("budget", f"peak allocation {tracemalloc.get_traced_memory()[1]} bytes", None, ctx.reached, ctx.steps)
            return NativeOutcome("raise", e, None, ctx.reached, ctx.steps)
    finally:
        try:
            sys.setrecursionlimit(old_limit)
        except Exception:
            pass
        if use_alarm:
            signal.setitimer(signal.ITIMER_REAL, 0)
            signal.signal(signal.SIGALRM, old_handler)
        if measure:
            tracemalloc.stop()
        sys.settrace(old)
        ctx.unpatch()
        Engine.current = prev_engine


# ---------------------------------------------------------------------------------------------- value helpers


def concretize_value(v, model, depth=0):
    """evaluate a (possibly symbolic) result under a z3 model into plain Python data"""
    import dataclasses
    import enum
    import uuid

    import z3

    if depth > 8:
        return "<deep>"
    if isinstance(v, V.SymInt):
        return model.eval(v.t, model_completion=True).as_signed_long()
    if isinstance(v, V.SymBool):
        return z3.is_true(model.eval(v.t, model_completion=True))
    if isinstance(v, V.SymSeq):
        return bytes(concretize_value(x, model, depth + 1) for x in v.items())
    if hasattr(V, "SymStr") and isinstance(v, V.SymStr):
        return v.concretize(model)
    if isinstance(v, (bytes, bytearray, memoryview)):
        return bytes(v)
    if isinstance(v, enum.Enum):
        return v.value if isinstance(v.value, (int, str)) else repr(v)
    if type(v).__name__ == "EnumProxy":
        return concretize_value(v.value, model, depth + 1)
    if isinstance(v, (bool, int, str, type(None), float)):
        return v
    if isinstance(v, uuid.UUID):
        return v.bytes_le
    if type(v).__name__ == "SymUUID":
        return concretize_value(v.bytes_le, model, depth + 1)
    if isinstance(v, tuple) and hasattr(v, "_fields"):
        return tuple(concretize_value(x, model, depth + 1) for x in v)
    if isinstance(v, (list, tuple)):
        return [concretize_value(x, model, depth + 1) for x in v]
    if isinstance(v, dict):
        return {str(k): concretize_value(x, model, depth + 1) for k, x in v.items()}
    if dataclasses.is_dataclass(v) and not isinstance(v, type):
        return {f.name: concretize_value(getattr(v, f.name), model, depth + 1) for f in dataclasses.fields(v)}
    return f"<{type(v).__name__}>"


def normalize_native(v, depth=0):
    import dataclasses
    import enum
    import uuid

    if depth > 8:
        return "<deep>"
    if isinstance(v, (bytes, bytearray, memoryview)):
        return bytes(v)
    if isinstance(v, enum.Enum):
        return v.value if isinstance(v.value, (int, str)) else repr(v)
    if isinstance(v, (bool, int, str, type(None), float)):
        return v
    if isinstance(v, uuid.UUID):
        return v.bytes_le
    if isinstance(v, tuple) and hasattr(v, "_fields"):
        return tuple(normalize_native(x, depth + 1) for x in v)
    if isinstance(v, (list, tuple)):
        return [normalize_native(x, depth + 1) for x in v]
    if isinstance(v, dict):
        return {str(k): normalize_native(x, depth + 1) for k, x in v.items()}
    if dataclasses.is_dataclass(v) and not isinstance(v, type):
        return {f.name: normalize_native(getattr(v, f.name), depth + 1) for f in dataclasses.fields(v)}
    return f"<{type(v).__name__}>"


def beq(a, b):
    """equality usable in both modes: returns bool or SymBool"""
    return a == b


def truth(x):
    return x if isinstance(x, bool) else bool(x)


def all_of(conds):
    """conjunction of bools / SymBools without forking"""
    import z3

    ts = []
    for c in conds:
        if isinstance(c, bool):
            if not c:
                return False
        elif isinstance(c, V.SymBool):
            ts.append(c.t)
        else:
            raise TypeError(type(c))
    if not ts:
        return True
    return V.mkbool(z3.And(*ts))


def any_of(conds):
    import z3

    ts = []
    for c in conds:
        if isinstance(c, bool):
            if c:
                return True
        elif isinstance(c, V.SymBool):
            ts.append(c.t)
        else:
            raise TypeError(type(c))
    if not ts:
        return False
    return V.mkbool(z3.Or(*ts))


def implies(a, b):
    return any_of([neg(a), b])


def neg(a):
    if isinstance(a, bool):
        return not a
    import z3

    return V.mkbool(z3.Not(a.t))


def ite(cond, a, b):
    """value-level if-then-else over ints without forking"""
    import z3

    if isinstance(cond, bool):
        return a if cond else b
    A, B = V.SymInt.lift(a), V.SymInt.lift(b)
    W = max(A.w, B.w)
    return V.SymInt.mk(z3.If(cond.t, V.resize(A.t, W), V.resize(B.t, W)), min(A.lo, B.lo), max(A.hi, B.hi))


def struct_eq(a, b, depth=0):
    """field-wise equality of decoded vs original values -> bool | SymBool (dataclass fields with init=False are skipped)"""
    import dataclasses
    import enum
    import uuid

    if depth > 10:
        raise RecursionError("struct_eq")
    # enum members are compared through .value (the integer value of a placeholder member need not be its value)
    if isinstance(a, enum.Enum) or type(a).__name__ == "EnumProxy":
        a = a.value
    if isinstance(b, enum.Enum) or type(b).__name__ == "EnumProxy":
        b = b.value
    if isinstance(a, (V.SymInt, V.SymBool)) or isinstance(b, (V.SymInt, V.SymBool)):
        return a == b
    if V.is_byteslike(a) and V.is_byteslike(b):
        if not isinstance(a, V.SymSeq):
            a = V.SymBytes(list(bytes(a)))
        return a == b
    if isinstance(a, (uuid.UUID,)) or type(a).__name__ in ("SymUUID", "FakeUUID") or isinstance(b, uuid.UUID) or type(b).__name__ in ("SymUUID", "FakeUUID"):
        if a is None or b is None:
            return a is b
        return struct_eq(a.bytes_le, b.bytes_le, depth + 1)
    if isinstance(a, V.SymStr) or isinstance(b, V.SymStr):
        return a == b
    if dataclasses.is_dataclass(a) and dataclasses.is_dataclass(b) and not isinstance(a, type):
        if type(a) is not type(b):
            return False
        return all_of([_sb(struct_eq(getattr(a, f.name), getattr(b, f.name), depth + 1)) for f in dataclasses.fields(a) if f.init])
    if isinstance(a, (list, tuple)) and isinstance(b, (list, tuple)):
        if len(a) != len(b):
            return False
        return all_of([_sb(struct_eq(x, y, depth + 1)) for x, y in zip(a, b)])
    r = a == b
    return r


def _sb(x):
    return x if isinstance(x, (bool, V.SymBool)) else bool(x)

from __future__ import annotations

import argparse
import os
import sys

# the library must not depend on the host's time zone: run every check in an unusual one (UTC+5:45, no DST), set before dpapi_ng is imported
os.environ["TZ"] = "NPT-5:45"
import time as _time

_time.tzset()

sys.path.insert(0, os.path.dirname(os.path.dirname(os.path.abspath(__file__))))
sys.setrecursionlimit(20000)
if hasattr(sys, "set_int_max_str_digits"):
    sys.set_int_max_str_digits(0)  # z3py renders big integers through str()


def main():
    ap = argparse.ArgumentParser()
    ap.add_argument("prop")
    ap.add_argument("--tier", default=os.environ.get("VERIF_TIER", "quick"), choices=["quick", "thorough"])
    ap.add_argument("--replay")
    ap.add_argument("--only", action="append")
    ap.add_argument("--workers", type=int)
    ap.add_argument("-v", action="store_true")
    a = ap.parse_args()
    from vlib import driver

    seed = int(os.environ.get("VERIF_SEED", "0") or 0)
    if a.replay:
        sys.exit(driver.replay(a.prop, a.replay))
    try:
        code = driver.run_property(a.prop, a.tier, seed, only=a.only, workers=a.workers, verbose=a.v)
    except (KeyboardInterrupt, SystemExit):
        raise
    except BaseException:  # a crash of the machinery itself is never a verdict about the property
        import traceback

        traceback.print_exc()
        print("HARNESS-ERROR: the checker crashed (exit 3)")
        code = 3
    sys.exit(code)


if __name__ == "__main__":
    main()

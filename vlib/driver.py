"""Runs the harnesses of one property: parallel path exploration, per-path native cross-check, replay of
counterexamples, known-findings handling, evidence file."""
from __future__ import annotations

from symex.engine import EngineSignal

import collections
import concurrent.futures as cf
import hashlib
import importlib
import json
import multiprocessing as mp
import os
import sys
import time
import traceback

from symex.engine import Engine
from symex.interp import Interp

from . import api

ROOT = os.path.dirname(os.path.dirname(os.path.abspath(__file__)))
EXIT_OK, EXIT_VIOLATION, EXIT_INCONCLUSIVE, EXIT_HARNESS_ERROR = 0, 1, 2, 3

GRACE_AFTER_VIOLATION = 90
WALL_LIMIT = {"quick": 1500, "thorough": 3 * 3600}
CHUNK_PATHS = 150
CHUNK_SECONDS = 4.0


def _exc_name(e):
    return type(e).__name__


def _jsonable(v, depth=0):
    if depth > 6:
        return "<deep>"
    if isinstance(v, (bytes, bytearray)):
        return "hex:" + bytes(v).hex() if len(v) <= 96 else f"hex:{bytes(v[:48]).hex()}..({len(v)} bytes)"
    if isinstance(v, (bool, int, str, type(None), float)):
        if isinstance(v, int) and not isinstance(v, bool) and abs(v) > 1 << 62:
            return str(v)
        return v
    if isinstance(v, (list, tuple)):
        return [_jsonable(x, depth + 1) for x in v[:24]]
    if isinstance(v, dict):
        return {str(k): _jsonable(x, depth + 1) for k, x in list(v.items())[:40]}
    return repr(v)[:200]


def compact_inputs(inputs):
    """group name[i] byte symbols into hex strings for readability"""
    out, groups = {}, {}
    for k, v in inputs.items():
        if k.endswith("]") and "[" in k:
            base, idx = k[:-1].rsplit("[", 1)
            groups.setdefault(base, {})[int(idx)] = v
        else:
            out[k] = v if not (isinstance(v, int) and abs(v) > 1 << 62) else str(v)
    for base, d in groups.items():
        n = max(d) + 1
        out[base] = "hex:" + bytes(d.get(i, 0) for i in range(n)).hex()
    return out


def classify(h, pr):
    """-> list of (label, detail) property violations visible from the path outcome itself"""
    if pr.kind == "raise" and not isinstance(pr.value, h.raises):
        return [(f"raise:{_exc_name(pr.value)}", repr(pr.value)[:200])]
    if pr.kind == "budget" and h.budget_violation:
        return [("budget", str(pr.value))]
    return []


def native_confirms(h, label, out):
    if label.startswith("raise:"):
        return out.kind == "raise" and not isinstance(out.value, h.raises)
    if label == "budget":
        return out.kind == "budget"
    return out.kind == "checkfail"


def _worker_init():
    import faulthandler
    import signal

    faulthandler.register(signal.SIGUSR1, all_threads=True)


def _worker(task):
    prop, hname, pidx, prefixes, max_paths, seconds = task
    h = next(x for x in api.HARNESSES[prop] if x.name == hname)
    params = h._jobs[pidx]
    eng = Engine(max_steps=h.max_steps)
    interp = Interp()
    res = dict(outcomes=collections.Counter(), violations=[], validated=0, mismatches=[], reached=collections.Counter(), reached_job=set(),
               samples=[], inconclusive=[], steps_max=0, check_verdicts=collections.Counter())

    def fn(e):
        api.ModuleState.restore()
        interp.set_stubs([])
        interp.reset_shadows()
        ctx = api.SymCtx(e, interp)
        return h.fn(ctx, **params)

    def on_path(pr):
        key = pr.kind + (":" + _exc_name(pr.value) if pr.kind == "raise" else "")
        res["outcomes"][key] += 1
        res["steps_max"] = max(res["steps_max"], pr.steps)
        for lab in set(pr.reached):
            res["reached"][lab] += 1
            res["reached_job"].add(lab)
        for lab, verdict in pr.checks:
            res["check_verdicts"][verdict] += 1
            if verdict == "unknown":
                res["inconclusive"].append(f"solver unknown at check '{lab}'")
        if pr.kind == "unsupported":
            res["inconclusive"].append(f"unsupported: {pr.value}")
        if pr.kind == "budget" and not h.budget_violation:
            res["inconclusive"].append(f"step budget exceeded ({pr.value})")
        viols = classify(h, pr)
        for label, detail in viols:
            out = api.run_native(h, params, pr.inputs, measure=(label == "budget"), big=True)
            res["violations"].append(dict(label=label, detail=detail, inputs=pr.inputs, confirmed=native_confirms(h, label, out),
                                          native=repr(out)[:300]))
        had_check_violation = any(v == "violated" for _, v in pr.checks)
        if pr.kind in ("return", "raise") and not viols and not had_check_violation:
            # per-path concretisation check: the symbolic outcome must be what CPython does on the path's model
            out = api.run_native(h, params, pr.inputs)
            ok = True
            why = ""
            if out.kind == "assume":
                # the completed model left the harness's stated assumptions (e.g. two ideal-primitive outputs collide): nothing to compare
                res["skipped_native"] = res.get("skipped_native", 0) + 1
                ok = None
            elif pr.kind == "return":
                if out.kind != "return":
                    ok, why = False, f"symbolic return vs native {out!r}"
                elif h.compare_result:
                    a = api.concretize_value(pr.value, pr.model)
                    b = api.normalize_native(out.value)
                    if a != b:
                        ok, why = False, f"result differs: symbolic {a!r} native {b!r}"
            else:
                if out.kind != "raise" or _exc_name(out.value) != _exc_name(pr.value):
                    ok, why = False, f"symbolic raise {_exc_name(pr.value)} ({pr.value}) vs native {out!r}"
            if ok is None:
                pass
            elif ok:
                res["validated"] += 1
            else:
                res["mismatches"].append(dict(inputs=compact_inputs(pr.inputs), why=why[:500]))
        if len(res["samples"]) < 3:
            res["samples"].append(dict(harness=h.name, params=_jsonable(params), inputs=_jsonable(compact_inputs(pr.inputs)), outcome=key,
                                       steps=pr.steps, checks=[f"{l}={v}" for l, v in pr.checks][:8]))

    known_open = {k["key"] for k in load_known() if k["property"] == prop and k.get("status") == "open"}

    def stop():
        # once a job has produced natively confirmed, not-yet-known violations its verdict is decided
        n = sum(1 for v in res["violations"] if v["confirmed"] and f"{h.name}:{v['label']}" not in known_open)
        n += len(eng.violations) if not known_open else 0
        return n >= 3

    try:
        leftover = eng.explore(fn, on_path, prefixes=prefixes, max_paths=max_paths, deadline=time.time() + seconds, stop=stop)
    except BaseException as e:  # engine bug -> harness error
        return dict(task=(hname, pidx), error="".join(traceback.format_exception(e))[-3000:])
    # violations found by c.check()
    seen = set()
    for label, inputs, _trace in eng.violations:
        if label in seen and len(seen) > 0 and sum(1 for v in res["violations"] if v["label"] == label) >= 2:
            res["violations"].append(dict(label=label, detail="(more)", inputs=None, confirmed=None, native=""))
            continue
        seen.add(label)
        out = api.run_native(h, params, inputs)
        res["violations"].append(dict(label=label, detail="check failed", inputs=inputs, confirmed=native_confirms(h, label, out),
                                      native=repr(out)[:300]))
    res["stats"] = dict(eng.stats)
    res["leftover"] = leftover
    res["stopped"] = getattr(eng, "stopped", False)
    res["task"] = (hname, pidx)
    res["encoded"] = dict(interp.encoded)
    return res


def load_known():
    p = os.path.join(ROOT, "known_findings.json")
    if not os.path.exists(p):
        return []
    return json.load(open(p))["findings"]


def run_property(prop, tier, seed, only=None, workers=None, verbose=False):
    t0 = time.time()
    mod = importlib.import_module(f"props.{prop.lower()}")
    hs = [h for h in api.HARNESSES.get(prop, []) if tier in h.tiers and (only is None or h.name in only)]
    if not hs:
        print(f"no harnesses for {prop} tier {tier}")
        return EXIT_HARNESS_ERROR
    for h in hs:
        h._jobs = h.jobs(tier)
    workers = workers or min(16, os.cpu_count() or 4)
    agg = dict(stats=collections.Counter(), outcomes=collections.Counter(), validated=0, mismatches=[], violations=[], inconclusive=[],
               samples=[], reached={}, encoded={}, per_harness={}, errors=[], check_verdicts=collections.Counter())
    pending = collections.deque()
    for h in hs:
        for i, _ in enumerate(h._jobs):
            pending.append((prop, h.name, i, [[]], 16, 4.0))
        agg["per_harness"][h.name] = dict(paths=0, jobs=len(h._jobs), reached=collections.Counter(), outcomes=collections.Counter(),
                                          steps_max=0)
    ctx = mp.get_context("fork")
    extra = getattr(mod, "extra_checks", None)
    with cf.ProcessPoolExecutor(max_workers=workers, mp_context=ctx, initializer=_worker_init) as ex:
        running = set()
        dead = set()
        decided_at = None
        wall_limit = WALL_LIMIT[tier]
        while pending or running:
            if time.time() - t0 > wall_limit:
                # never report a timeout as success: the unfinished work makes the run inconclusive
                agg["inconclusive"].append(f"wall-clock limit of {wall_limit} s for the {tier} tier exceeded with {len(pending) + len(running)} task(s) unfinished")
                agg["early_stop"] = agg.get("early_stop") or "time limit"
                for f in running:
                    f.cancel()
                for pr_ in list(getattr(ex, "_processes", {}).values()):
                    try:
                        pr_.kill()
                    except Exception:
                        pass
                break
            if decided_at is not None and time.time() > decided_at + GRACE_AFTER_VIOLATION:
                # the verdict is decided (a natively confirmed violation exists): do not wait for jobs that a defect may have made very slow
                agg["early_stop"] = f"stopped {GRACE_AFTER_VIOLATION} s after the first confirmed violation; {len(pending) + len(running)} task(s) unfinished"
                for f in running:
                    f.cancel()
                for pr_ in list(getattr(ex, "_processes", {}).values()):
                    try:
                        pr_.kill()
                    except Exception:
                        pass
                break
            while pending and len(running) < workers * 2:
                t_ = pending.popleft()
                if (t_[1], t_[2]) in dead:
                    continue
                running.add(ex.submit(_worker, t_))
            if not running:
                continue
            done, running = cf.wait(running, timeout=5, return_when=cf.FIRST_COMPLETED)
            for f in done:
                try:
                    r = f.result()
                except Exception as e:  # a worker that was killed
                    agg["errors"].append(f"worker failed: {e!r}"[:300])
                    continue
                hname, pidx = r["task"]
                if "error" in r:
                    agg["errors"].append(f"{hname}[{pidx}]: {r['error']}")
                    continue
                left = r["leftover"]
                if r.get("stopped"):
                    dead.add((hname, pidx))
                if left and (hname, pidx) not in dead:
                    # split the remaining work-list over several tasks
                    k = max(1, min(len(left), workers if len(left) < 4 * workers else 2 * workers))
                    for j in range(k):
                        part = left[j::k]
                        if part:
                            pending.append((prop, hname, pidx, part, CHUNK_PATHS, CHUNK_SECONDS))
                for k_, v in r["stats"].items():
                    agg["stats"][k_] += v
                agg["outcomes"].update({f"{hname}:{k_}": v for k_, v in r["outcomes"].items()})
                agg["check_verdicts"].update(r["check_verdicts"])
                agg["validated"] += r["validated"]
                agg["mismatches"].extend(dict(m, harness=hname, params=_jsonable(next(x for x in hs if x.name == hname)._jobs[pidx]))
                                         for m in r["mismatches"])
                for v in r["violations"]:
                    v["harness"], v["pidx"] = hname, pidx
                    agg["violations"].append(v)
                    if v.get("confirmed") and decided_at is None:
                        decided_at = time.time()
                agg["inconclusive"].extend(f"{hname}[{pidx}]: {m}" for m in r["inconclusive"])
                ph = agg["per_harness"][hname]
                ph["paths"] += r["stats"]["paths"]
                ph["reached"].update(r["reached"])
                ph.setdefault("reached_by_job", {}).setdefault(pidx, set()).update(r["reached_job"])
                ph["outcomes"].update(r["outcomes"])
                ph["steps_max"] = max(ph["steps_max"], r["steps_max"])
                if len(agg["samples"]) < 12 and r["samples"]:
                    agg["samples"].append(r["samples"][0])
                agg["encoded"].update(r["encoded"])
                if verbose:
                    print(f"  .. {hname}[{pidx}] paths={r['stats']['paths']} left={len(left)} t={time.time()-t0:.0f}s", flush=True)
    extra_results = []
    if extra:
        for name, fnx in extra(tier):
            try:
                extra_results.append(dict(name=name, **fnx()))
            except (Exception, EngineSignal) as e:  # Unsupported etc. are BaseExceptions
                agg["errors"].append(f"extra check {name}: " + "".join(traceback.format_exception(e))[-1500:])

    # ---------------------------------------------------------------- verdict
    known = [k for k in load_known() if k["property"] == prop]
    open_known = {k["key"]: k for k in known if k.get("status") == "open"}
    exit_code = EXIT_OK
    lines = []
    confirmed, unconfirmed = {}, []
    for v in agg["violations"]:
        if v["confirmed"] is None:
            continue
        key = f"{v['harness']}:{v['label']}"
        if v["confirmed"]:
            confirmed.setdefault(key, v)
        else:
            unconfirmed.append(v)
    for er in extra_results:
        for v in er.get("violations", []):
            confirmed.setdefault(f"{er['name']}:{v['label']}", dict(v, harness=er["name"], pidx=0))
        agg["inconclusive"].extend(f"{er['name']}: {m}" for m in er.get("inconclusive", []))
        for k_, v_ in er.get("stats", {}).items():
            agg["stats"][k_] += v_
        agg["samples"].extend(er.get("samples", [])[:2])
    n_viol = 0
    os.makedirs(os.path.join(ROOT, "replays", prop), exist_ok=True)
    for key, v in sorted(confirmed.items()):
        if key in open_known:
            lines.append(f"KNOWN-FINDING: property={prop} {open_known[key]['what']}")
            continue
        n_viol += 1
        hname = v["harness"]
        h = next((x for x in hs if x.name == hname), None)
        rp = os.path.join(ROOT, "replays", prop, hashlib.sha256(key.encode()).hexdigest()[:12] + ".json")
        json.dump(dict(property=prop, harness=hname, params=_jsonable(h._jobs[v["pidx"]]) if h else None, pidx=v["pidx"], label=v["label"],
                       inputs=v.get("inputs"), detail=v.get("detail"), native=v.get("native"), tier=tier), open(rp, "w"), indent=1)
        lines.append(f"VIOLATION property={prop} replay={rp}")
        lines.append(f"  {key}: {v.get('detail')} | native replay: {v.get('native')} | inputs: {json.dumps(_jsonable(compact_inputs(v['inputs'] or {})))[:600]}")
        exit_code = EXIT_VIOLATION
    # vacuity: every label a harness must reach was reached on a feasible path
    vac = []
    for h in hs:
        ph = agg["per_harness"][h.name]
        for lab in h.must_reach:
            if not ph["reached"].get(lab):
                vac.append(f"{h.name}: label '{lab}' never reached (vacuous harness?)")
            elif h.per_job:
                # every job (parameter set) of the harness needs its own reachability witness
                missing = [i for i in range(len(h._jobs)) if (h.name, i) not in dead and lab not in ph.get("reached_by_job", {}).get(i, set())]
                if missing:
                    vac.append(f"{h.name}: label '{lab}' not reached by job(s) {missing[:6]} {_jsonable(h._jobs[missing[0]])} (no feasible path got there)")
        if not h.must_reach and not ph["reached"] and not h.raises and ph["outcomes"].get("return", 0) == 0:
            vac.append(f"{h.name}: no path returned and no check was reached")
    harness_errors = list(agg["errors"])
    if unconfirmed:
        for v in unconfirmed[:5]:
            harness_errors.append(f"counterexample did not replay natively: {v['harness']}:{v['label']} native={v['native']} "
                                  f"inputs={json.dumps(_jsonable(compact_inputs(v['inputs'])))[:400]}")
    if agg["mismatches"]:
        for m in agg["mismatches"][:5]:
            harness_errors.append(f"symbolic/native outcome mismatch in {m['harness']} {m['params']}: {m['why']} inputs={json.dumps(_jsonable(m['inputs']))[:400]}")
    if agg.get("early_stop"):
        vac = [agg["early_stop"]] if agg["early_stop"] != "time limit" else []  # unfinished jobs cannot have reached their labels: not a vacuity finding
        harness_errors = [e for e in harness_errors if not e.startswith("worker failed")]
    inconclusive = sorted(set(agg["inconclusive"])) + vac
    if agg["stats"].get("unknown"):
        inconclusive.append(f"{agg['stats']['unknown']} solver queries returned unknown")
    if exit_code == EXIT_OK:
        if harness_errors:
            exit_code = EXIT_HARNESS_ERROR
        elif inconclusive:
            exit_code = EXIT_INCONCLUSIVE
    wall = time.time() - t0

    # ---------------------------------------------------------------- evidence
    meta = getattr(mod, "META", {})
    ev = dict(
        property_id=prop, tier=tier, seed=seed, level="model_checking",
        coverage=dict(
            states=max(1, agg["stats"]["paths"]), transitions=max(1, agg["stats"]["decisions"]),
            traces_validated_against_impl=agg["validated"],
            samples=agg["samples"][:12] or [dict(note="no path samples (solver-only checks)")],
            exhaustive=(exit_code in (EXIT_OK, EXIT_VIOLATION) and not inconclusive),
            explanation="states = symbolic paths explored (each covers every input satisfying its path condition); transitions = branch "
                        "decisions taken; traces_validated_against_impl = paths whose model input was re-run natively (CPython, real "
                        "code) and gave the same outcome as the symbolic execution",
            functions_encoded=agg["encoded"],
            harnesses={h.name: dict(bounds=h.bounds, outside_bounds=h.outside, jobs=agg["per_harness"][h.name]["jobs"],
                                    paths=agg["per_harness"][h.name]["paths"], max_steps_on_a_path=agg["per_harness"][h.name]["steps_max"],
                                    outcomes=dict(agg["per_harness"][h.name]["outcomes"]),
                                    reachability_witnesses=dict(agg["per_harness"][h.name]["reached"])) for h in hs},
            queries=dict(total=agg["stats"]["queries"], sat=agg["stats"].get("sat", 0), unsat=agg["stats"].get("unsat", 0),
                         unknown=agg["stats"].get("unknown", 0)),
            assertion_queries=dict(agg["check_verdicts"]),
            solver_s=round(agg["stats"]["solver_s"], 2),
            solver="z3 " + __import__("z3").get_version_string(),
            extra_checks=[{k: v for k, v in er.items() if k not in ("violations", "samples")} for er in extra_results],
            inconclusive_reasons=inconclusive[:20],
            harness_errors=harness_errors[:10],
            confirmed_violations=sorted(confirmed)[:50],
            known_findings=[k for k in known],
        ),
        assumptions=list(meta.get("assumptions", [])),
        wall_s=round(wall, 2),
        violations=n_viol,
    )
    os.makedirs(os.path.join(ROOT, "evidence"), exist_ok=True)
    with open(os.path.join(ROOT, "evidence", f"{prop}.json"), "w") as f:
        json.dump(ev, f, indent=1, default=str)
    for l in lines:
        print(l)
    print(f"[{prop} {tier}] paths={agg['stats']['paths']} queries={agg['stats']['queries']} solver_s={agg['stats']['solver_s']:.1f} "
          f"validated_natively={agg['validated']} violations={n_viol} wall={wall:.1f}s exit={exit_code}")
    for h in hs:
        ph = agg["per_harness"][h.name]
        print(f"   {h.name}: jobs={ph['jobs']} paths={ph['paths']} outcomes={dict(ph['outcomes'])}")
    if inconclusive:
        print("INCONCLUSIVE:", *inconclusive[:10], sep="\n   ")
    if harness_errors:
        print("HARNESS-ERROR:", *harness_errors[:10], sep="\n   ")
    return exit_code


def replay(prop, path):
    importlib.import_module(f"props.{prop.lower()}")
    d = json.load(open(path))
    h = next(x for x in api.HARNESSES[prop] if x.name == d["harness"])
    jobs = h.jobs(d.get("tier", "quick"))
    params = jobs[d["pidx"]]
    out = api.run_native(h, params, d["inputs"], measure=(d["label"] == "budget"), big=True)
    print("replay:", d["harness"], d["label"], "->", out)
    if native_confirms(h, d["label"], out):
        print(f"VIOLATION property={prop} replay={path}")
        return EXIT_VIOLATION
    return EXIT_OK

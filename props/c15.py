"""C15 - bind/auth handshake relays tokens faithfully and fails closed."""
from __future__ import annotations

import uuid

from dpapi_ng import _client
from dpapi_ng._rpc import _bind, _client as rc, _pdu, _request

from symex import values as V
from vlib.api import all_of, any_of, harness, neg, struct_eq, truth

from . import refs
from .c14 import FakeReader, FakeSock, FakeWriter
from . import secctx
from .world import seq_eq

META = dict(assumptions=[
    "authentication provider stub: step() returns the scripted client token (possibly empty on the last leg) and `complete` becomes true after a scripted number of legs",
    "server stub: each client PDU is answered by a solver-chosen reply from {matching ack with solver-chosen result vector / header-sign flag / token, bind_nak, fault, "
    "response, ack of the wrong type, EOF}",
])
P = "C15"
CTX = _client._ISD_KEY_CONTEXTS
TOK = 4


class Server:
    """transport that answers each PDU the client sends"""

    def __init__(self, c, max_turns, full=True):
        self.c, self.max_turns, self.full = c, max_turns, full
        self.sent, self.turns, self.pending = [], [], b""
        self.pos = 0

    # sync socket API
    def sendall(self, b):
        self._on_pdu(b)

    def recv_into(self, view, nbytes=0, flags=0):
        # socket.recv_into contract: nbytes == 0 means "up to len(buffer)"
        want = nbytes if nbytes else len(view)
        k = min(want, len(self.pending) - self.pos)
        if k:
            view[:k] = self.pending[self.pos : self.pos + k]
        self.pos += k
        return k

    def recv(self, n):
        k = min(n, len(self.pending) - self.pos)
        out = self.pending[self.pos : self.pos + k]
        self.pos += k
        return out

    # reply construction
    def _on_pdu(self, b):
        c = self.c
        i = len(self.sent)
        self.sent.append(b)
        ptype = b[2]
        kind = c.concretize(c.int(f"turn{i}_kind", 0, 5)) if i < self.max_turns else 5
        hs = c.bool(f"turn{i}_hs")
        has_tok = truth(c.bool(f"turn{i}_tok"))
        nres = c.concretize(c.int(f"turn{i}_nres", 0, 3)) if i == 0 or self.full else 2
        results = [_bind.ContextResult(c.int(f"turn{i}_r{j}", 0, 3), 0, uuid.UUID(int=j + 1), 1) for j in range(nres)]
        tok = c.bytes(f"stok{i}", TOK) if has_tok else None
        self.turns.append(dict(kind=kind, hs=hs, tok=tok, results=results, ptype=ptype))
        flags = 3 + V.SymInt.lift(hs) * 4 if c.symbolic else 3 + (4 if hs else 0)
        tr = _pdu.SecTrailer(_pdu.SecurityProvider.RPC_C_AUTHN_GSS_NEGOTIATE, _pdu.AuthenticationLevel.RPC_C_AUTHN_LEVEL_PKT_PRIVACY, 0, 0, tok) if tok is not None else None

        def hdr(pt, n):
            return _pdu.PDUHeader(5, 0, pt, flags, _pdu.DataRep(), n, TOK if tr else 0, 1)

        is_bind = truth(ptype == 11) if not isinstance(ptype, int) else ptype == 11
        ack_cls, ack_pt = (_bind.BindAck, _pdu.PacketType.BIND_ACK) if is_bind else (_bind.AlterContextResponse, _pdu.PacketType.ALTER_CONTEXT_RESP)
        if kind == 4:
            ack_cls, ack_pt = (_bind.AlterContextResponse, _pdu.PacketType.ALTER_CONTEXT_RESP) if is_bind else (_bind.BindAck, _pdu.PacketType.BIND_ACK)
        if kind in (0, 4):
            mk = lambda n: ack_cls(hdr(ack_pt, n), tr, 5840, 5840, 1, "49", results)
        elif kind == 1:
            mk = lambda n: _bind.BindNak(_pdu.PDUHeader(5, 0, _pdu.PacketType.BIND_NAK, 3, _pdu.DataRep(), n, 0, 1), None, 4, [(5, 0)])
        elif kind == 2:
            mk = lambda n: _pdu.Fault(_pdu.PDUHeader(5, 0, _pdu.PacketType.FAULT, 3, _pdu.DataRep(), n, 0, 1), None, 0, 0, 0, 5, _pdu.FaultFlags(0), b"")
        elif kind == 3:
            mk = lambda n: _request.Response(_pdu.PDUHeader(5, 0, _pdu.PacketType.RESPONSE, 3, _pdu.DataRep(), n, 0, 1), None, 0, 0, 0, b"")
        else:
            self.pending, self.pos = b"", 0
            return
        n = len(c.call(mk(0).pack))
        self.pending, self.pos = refs.cat(c.call(mk(n).pack)), 0


def _params(tier):
    out = []
    for nlegs in ([1, 2] if tier == "quick" else [1, 2, 3, 4]):
        for fe in (False, True):
            if nlegs == 1 and fe:
                continue  # a provider's first token is never empty
            out.append(dict(nlegs=nlegs, final_empty=fe, flavour="sync"))
    out.append(dict(nlegs=2, final_empty=True, flavour="async"))
    if tier == "thorough":
        out += [dict(nlegs=n, final_empty=fe, flavour="async") for n in (1, 3) for fe in (False, True) if not (n == 1 and fe)]
    return out


@harness(P, params=_params, raises=(Exception,), max_steps=200000,
         bounds="provider legs 1..2 (quick) / 1..4 (thorough; result-vector length solver-chosen 0..3 on the first reply, 2 on later replies when legs > 2), empty or non-empty final token; server script: one solver-chosen reply per client PDU (6 kinds, 0..3 results with "
         "symbolic result codes, header-sign flag, token present/absent), script depth = number of legs + 1; sync client (async for legs=2 quick, more thorough)",
         outside="longer scripts; fragmented replies (C14)", must_reach=("tokens relayed in order, exactly once", "header signing = offered and every ack advertised it"))
def handshake(c, nlegs, final_empty, flavour):
    prov = secctx.IdealContext(c, 16, tokens=nlegs, final_empty=final_empty)
    auth = secctx.provider(prov)
    srv = Server(c, nlegs + 1, full=nlegs <= 2)
    if flavour == "sync":
        client = rc.SyncRpcClient(srv, auth)
        ack = c.call(client.bind, CTX)
    else:
        class R:
            async def readexactly(self, n):
                import asyncio

                out = srv.recv(n)
                if len(out) < n:
                    raise asyncio.IncompleteReadError(bytes(len(out)), n)
                return out

        class W:
            def write(self, b):
                srv.sendall(b)

            async def drain(self):
                pass

        client = rc.AsyncRpcClient(R(), W(), auth)

        async def wrap_sync(func, *args):
            return func(*args)

        client._wrap_sync = wrap_sync
        ack = c.call_async(client.bind, CTX)
    # ---- bind() returned normally: every server turn must have been a proper ack
    c.check(truth(prov.complete), "bind returns normally only with a complete security context")
    c.check(all(t["kind"] == 0 for t in srv.turns), "a rejection or unexpected PDU was ignored")
    sent = [c.call(_pdu.PDU.unpack, V.SymByteArray(list(V.seq_items(b))) if c.symbolic else bytearray(b)) for b in srv.sent]
    toks = [t for t in prov.out_tokens]
    conds = [isinstance(sent[0], _bind.Bind) and not isinstance(sent[0], _bind.AlterContext)]
    conds += [isinstance(p, _bind.AlterContext) for p in sent[1:]]
    # k-th PDU carries the k-th provider token; a PDU is sent for every non-empty token produced while incomplete
    nonempty = [t for i, t in enumerate(toks) if len(t) or i == 0]
    conds.append(len(sent) == len(nonempty))
    for p, t in zip(sent, nonempty):
        conds.append(p.sec_trailer is not None and seq_eq(p.sec_trailer.auth_value, t))
        conds.append(p.header.auth_len == len(t))
        conds.append(p.sec_trailer is not None and p.sec_trailer.level == 6 and p.sec_trailer.type == 9 and p.sec_trailer.pad_length == 0)
    # server tokens are fed back in order
    conds.append(prov.in_tokens[0] is None)
    for i, it in enumerate(prov.in_tokens[1:]):
        st = srv.turns[i]["tok"]
        conds.append(seq_eq(it, st if st is not None else b""))
    conds.append(prov.steps <= nlegs)
    c.check(all_of([x if isinstance(x, (bool, V.SymBool)) else bool(x) for x in conds]), "tokens relayed in order, exactly once")
    # contexts of alter_context PDUs = those the bind_ack accepted
    acc = [CTX[j] for j, r in enumerate(srv.turns[0]["results"][: len(CTX)]) if truth(r.result == 0)]
    c.check(all_of([len(p.contexts) == len(acc) and struct_eq([x.context_id for x in p.contexts], [x.context_id for x in acc]) for p in sent[1:]] or [True]),
            "alter_context offers exactly the accepted contexts")
    want_sign = all_of([t["hs"] if isinstance(t["hs"], (bool, V.SymBool)) else bool(t["hs"]) for t in srv.turns])
    got_sign = client._sign_header
    c.check((got_sign == want_sign) if isinstance(want_sign, bool) else (want_sign if got_sign else neg(want_sign)), "header signing = offered and every ack advertised it")
    c.check(all_of([(p.header.packet_flags & 4) != 0 for p in sent[:1]]), "client advertises header signing in bind")
    # a request may only be issued on an accepted context
    raised = False
    try:
        c.call(_client._process_bind_result, CTX, ack, 0)
    except ValueError:
        raised = True
    r0 = srv.turns[0]["results"]
    accepted0 = (r0[0].result == 0) if r0 else False
    c.check(neg(accepted0) if raised else accepted0, "request only on an accepted context")
    return len(sent)


@harness(P, params=[dict(kind=k) for k in range(6)], raises=(Exception,), bounds="no security context: bind returns the ack; nak/fault/response/wrong ack/EOF raise", must_reach=())
def handshake_noauth(c, kind):
    srv = Server(c, 1)
    client = rc.SyncRpcClient(srv, None)
    ack = c.call(client.bind, _client._EPM_CONTEXTS)
    c.check(srv.turns[0]["kind"] == 0 and len(srv.sent) == 1, "noauth: only a proper bind_ack is accepted")
    p = c.call(_pdu.PDU.unpack, bytearray(srv.sent[0]))
    c.check(p.sec_trailer is None and p.header.auth_len == 0 and not (p.header.packet_flags & 4), "noauth: no trailer, no header signing")
    return True

"""C18 - endpoint-mapper replies: right port if well-formed, bounded work for any reply."""
from __future__ import annotations

import types

from dpapi_ng import _client, _epm

from symex import values as V
from vlib.api import all_of, any_of, harness, ite, neg

from . import refs

META = dict(assumptions=["well-formed replies are produced by the independent NDR64 encoder props/refs.py:ref_ept_map_result (8-byte alignment of every tower, 4-byte "
                         "alignment of the status)", "step budget = interpreted statements; 'proportional to size' is decided as steps <= 60*len + 400"])
P = "C18"
UUID_LHS = bytes(range(16)) + b"\x01\x00"


def _wf_params(tier):
    out = _wf_base(tier)
    for d in out:
        d["canon"] = False
    # the canonical ncacn_ip_tcp tower (5 floors, TCP floor fourth) listed AFTER the other towers
    out += [dict(n=n, r=r, tcp=t, canon=True) for n, r, t in ([(1, 0, 0), (1, 3, -1), (2, 5, 1), (2, 2, 0)] if tier == "quick" else
                                                              [(n, r, t) for n in (1, 2) for r in (0, 3, 5) for t in range(-1, n)])]
    return out


def _wf_base(tier):
    out = [dict(n=0, r=0, tcp=-1)]
    for n in ([1, 2, 3] if tier == "quick" else [1, 2, 3, 4]):
        for r in range(8):
            # every tower forks over the known protocol ids: the number of paths grows as ~6^n, which bounds n
            for tcp in ([-1, 0, n - 1] if tier == "quick" or n == 4 else range(-1, n)):
                d = dict(n=n, r=r, tcp=tcp)
                if d not in out:
                    out.append(d)
    return out


@harness(P, params=_wf_params, max_steps=100000,
         bounds="well-formed replies with 0..3 (quick) / 0..4 (thorough) towers; every tower = [floor with symbolic protocol id and r-byte symbolic RHS (r = 0..7, so "
         "every tower length residue mod 8), optional TCP floor with symbolic port in tower `tcp`, UUID floor]; status symbolic 32-bit; entry handle symbolic; optionally followed by the canonical 5-floor ncacn_ip_tcp tower with its own symbolic port",
         outside="more towers; floors of known protocols with malformed payloads", must_reach=("port of the first tower with a TCP floor", "towers decoded"))
def wellformed(c, n, r, tcp, canon):
    status = c.int("status", 0, (1 << 32) - 1)
    handle = c.bytes("handle", 20)
    towers, expect = [], []
    for i in range(n):
        proto = c.int(f"proto{i}", 0, 255)
        c.assume(all_of([proto != 0x0D]))
        rhs = c.bytes(f"rhs{i}", r)
        floors = [refs.ref_floor(proto, b"", rhs)]
        expect.append((proto == 7, V.int_from_bytes(rhs, "big") if c.symbolic else int.from_bytes(rhs, "big")))
        if i == tcp:
            port = c.int("port", 0, 65535)
            floors.append(refs.ref_floor(7, b"", refs.le(port, 2)[::-1] if not c.symbolic else V.SymBytes(list(V.seq_items(port.to_bytes(2, "big")))).norm()
                                         if not isinstance(port, int) else port.to_bytes(2, "big")))
            expect.append((True, port))
        floors.append(refs.ref_floor(0x0D, UUID_LHS, b"\x00\x00"))
        towers.append(refs.ref_tower(floors))
    if canon:
        port2 = c.int("port_canonical", 0, 65535)
        p2 = (V.SymBytes(list(V.seq_items(port2.to_bytes(2, "big")))).norm() if not isinstance(port2, int) else port2.to_bytes(2, "big"))
        towers.append(refs.ref_tower([refs.ref_floor(0x0D, UUID_LHS, b"\x00\x00"), refs.ref_floor(0x0D, bytes(range(16, 32)) + b"\x01\x00", b"\x00\x00"), refs.ref_floor(0x0B, b"", b"\x00\x00"),
                                      refs.ref_floor(7, b"", p2), refs.ref_floor(9, b"", bytes(4))]))
        expect.append((True, port2))
    buf = refs.ref_ept_map_result(handle, towers, status)
    res = c.call(_epm.EptMapResult.unpack, buf)
    c.check(all_of([len(res.towers) == n + (1 if canon else 0), res.status == status] + [len(t) == (3 if i == tcp else 2) for i, t in enumerate(res.towers[:n])] +
                   ([len(res.towers[n]) == 5] if canon and len(res.towers) > n else [])), "towers decoded")
    has_tcp = any_of([e[0] for e in expect])
    want = 0
    for is_tcp, p in reversed(expect):
        want = ite(is_tcp, p, want) if c.symbolic else (p if is_tcp else want)
    raised = False
    try:
        got = c.call(_client._process_ept_map_result, types.SimpleNamespace(stub_data=buf))
    except ValueError:
        raised = True
    if raised:
        c.check(any_of([status != 0, neg(has_tcp)]), "error only when status != 0 or no TCP floor")
    else:
        c.check(all_of([status == 0, has_tcp, got == want]), "port of the first tower with a TCP floor")
    return raised


def _arb_params(tier):
    return [dict(body=b) for b in ([0, 14, 24] if tier == "quick" else [0, 8, 14, 19, 24, 28])]


@harness(P, params=_arb_params, raises=(Exception,), budget_violation=True, max_steps=4500, native_step_limit=40000,
         bounds="arbitrary replies: 48-byte header whose tower-count field is a symbolic 64-bit value (0..2^64-1), followed by 0..24 (quick) / 0..28 (thorough) fully "
         "symbolic bytes and a 4-byte status; the decode must end (any outcome) within 4500 interpreted statements", outside="longer arbitrary bodies",
         must_reach=())
def arbitrary(c, body):
    head = refs.cat(bytes(40), c.bytes("tower_count", 8))
    buf = refs.cat(head, c.bytes("body", body), c.bytes("status", 4))
    res = c.call(_epm.EptMapResult.unpack, buf)
    return len(res.towers)


@harness(P, per_job=True, params=lambda tier: [dict(n=n, tcp=t, r=r) for n, t, r in ([(5, 4, 3), (6, 5, 0), (6, 4, 5), (8, 7, 2)] if tier == "quick" else
                                                                                  [(n, t, r) for n in (5, 6, 8, 12) for t in (0, 4, n - 1) for r in (0, 3, 5)])], max_steps=400000,
         bounds="replies with 5..8 (thorough ..12) towers - more than the client asked for - whose floors have a fixed non-TCP protocol (named pipe) and r-byte payloads, with the "
         "only TCP floor (symbolic port) in a listed tower, possibly the last: the client returns that port", outside="other tower counts",
         must_reach=("many towers: port of the only TCP tower",))
def many_towers(c, n, tcp, r):
    port = c.int("port", 0, 65535)
    pb = V.SymBytes(list(V.seq_items(port.to_bytes(2, "big")))).norm() if not isinstance(port, int) else port.to_bytes(2, "big")
    towers = []
    for i in range(n):
        floors = [refs.ref_floor(0x0F, b"", c.bytes(f"pipe{i}", r))]
        if i == tcp:
            floors.append(refs.ref_floor(7, b"", pb))
        floors.append(refs.ref_floor(0x0D, UUID_LHS, b"\x00\x00"))
        towers.append(refs.ref_tower(floors))
    buf = refs.ref_ept_map_result(c.bytes("handle", 20), towers, 0)
    got = c.call(_client._process_ept_map_result, types.SimpleNamespace(stub_data=buf))
    c.check(got == port, "many towers: port of the only TCP tower")
    return True

"""C19 - every encryption uses fresh CEK, nonce and key-identifier randomness."""
from __future__ import annotations

import dpapi_ng
from dpapi_ng import _blob

from vlib.api import all_of, harness, truth

from . import e2e, refs
from .world import ScalarOutOfRange  # noqa
from .world import lookup, same_syms, seq_eq

META = dict(assumptions=[
    "randomness cannot be quantified over; the decided statement is its deterministic core: every emitted blob's GCM nonce, content-encryption key and key-identifier nonce (or "
    "ephemeral private key) is RNG output - the value of an os.urandom / AESGCM.generate_key draw made at any earlier point of the history, or a contiguous slice of one - and "
    "the pieces of RNG output used by all blobs and roles of the history are pairwise disjoint. Pairwise distinctness of the values then follows from the RNG (stated "
    "assumption). When the material is drawn (per call, in batches, from a pool) is NOT constrained; material that is computed rather than drawn (a counter, a hash of a "
    "draw) is not recognised and would be reported.",
])
P = "C19"


def _locate(value, draws):
    """(draw index, offset, length) such that value is that contiguous slice of the draw (same solver symbols / same concrete octets), or None"""
    from symex import values as V

    if not V.is_byteslike(value):
        return None
    items = V.seq_items(value)
    n = len(items)
    if n == 0:
        return None
    for di, d in enumerate(draws):
        ditems = V.seq_items(d[2])
        for off in range(0, len(ditems) - n + 1):
            if same_syms(V.SymBytes(ditems[off : off + n]) if not isinstance(d[2], (bytes, bytearray)) else bytes(d[2])[off : off + n],
                         value if not isinstance(value, (bytes, bytearray, memoryview)) else bytes(value)):
                return (di, off, n)
    return None


def _disjoint(used):
    """pieces of RNG output [(draw, offset, length)] pairwise disjoint"""
    for i in range(len(used)):
        for j in range(i + 1, len(used)):
            a, b = used[i], used[j]
            if a[0] == b[0] and a[1] < b[1] + b[2] and b[1] < a[1] + a[2]:
                return False
    return True


def _material(c, w, blob_bytes, public=False):
    """-> (conditions, pieces of RNG output used by this blob [nonce, cek(, key-identifier nonce)])"""
    b = c.call(_blob.DPAPINGBlob.unpack, blob_bytes)
    par = refs.cat(b.enc_content_parameters)
    conds, used = [], []
    nonce = par[4:16] if len(par) == 19 else None
    conds.append(nonce is not None and seq_eq(par, refs.ref_gcm_parameters(nonce)))
    if nonce is None:
        return conds + [False], used
    wrec = [r for r in w.wraps if same_syms(r[0][1], b.enc_cek)]
    conds.append(len(wrec) == 1)
    if len(wrec) != 1:
        return conds, used
    cek = wrec[0][1]
    arec = [r for r in w.aead if same_syms(r[0][2], b.enc_content)]
    conds.append(len(arec) == 1 and all_of([seq_eq(arec[0][0][0], cek), seq_eq(arec[0][0][1], nonce)]))
    vals = [nonce, cek] + ([] if public else [b.key_identifier.key_info])
    for v in vals:
        loc = _locate(v, w.draws)
        conds.append(loc is not None)
        if loc is not None:
            used.append(loc)
    conds.append(len(refs.cat(cek)) == 32)
    return conds, used


@harness(P, per_job=True, params=lambda tier: [dict(ncalls=3, hash_name="SHA512", same=True), dict(ncalls=2, hash_name="SHA1", same=False)] +
         ([dict(ncalls=4, hash_name=h, same=s) for h in ("SHA256", "SHA384") for s in (True, False)] if tier == "thorough" else []), max_steps=3000000,
         bounds="2..3 (quick) / 4 (thorough) consecutive protect calls on one cache with identical or different arguments, nonce mode, one unprotect interleaved after the first call; "
         "clock fixed inside one interval", outside="longer call sequences (each call is the same code from the same cache state class); public-key mode (see C03)",
         must_reach=("every blob's CEK, nonce and key-identifier nonce are RNG output", "no RNG output is used twice (across calls and roles)"))
def fresh_draws(c, ncalls, hash_name, same):
    lo, hi = e2e.window(361, 9, 9, -10, -10)
    w = e2e.new_world(c, lo, lo)  # the clock is not the subject here: one fixed instant
    root = c.bytes("root", 64)
    cache = e2e.loaded_cache(c, root, hash_name)
    pts = [c.bytes("pt", 9)] * ncalls if same else [c.bytes(f"pt{i}", 9) for i in range(ncalls)]
    conds, used = [], []
    for i in range(ncalls):
        blob = c.call(dpapi_ng.ncrypt_protect_secret, pts[i], e2e.SIDS[0 if same else i % 2], root_key_identifier=e2e.RK, cache=cache)
        cs, us = _material(c, w, blob)
        conds += cs
        used += us
        if i == 0:
            out = c.call(dpapi_ng.ncrypt_unprotect_secret, blob, cache=cache)
            conds.append(seq_eq(out, pts[0]))
    c.check(all_of(conds), "every blob's CEK, nonce and key-identifier nonce are RNG output")
    c.check(len(used) == 3 * ncalls and _disjoint(used), "no RNG output is used twice (across calls and roles)")
    return len(w.draws)


@harness(P, per_job=True, params=lambda tier: [dict(alg=a, hash_name=h, rkid=r) for a, h, r in ([("DH", "SHA256", False), ("ECDH_P256", "SHA512", True), ("ECDH_P521", "SHA384", False), ("DH/g=1", "SHA256", True), ("DH/g=p-1", "SHA1", False)] if tier == "quick" else
                                                                        [("DH", "SHA1", True), ("DH", "SHA256", False), ("ECDH_P256", "SHA512", True), ("ECDH_P256", "SHA256", False), ("ECDH_P384", "SHA384", False), ("ECDH_P521", "SHA1", True), ("ECDH_P521", "SHA512", False), ("DH/g=1", "SHA256", True), ("DH/g=p-1", "SHA1", False)])],
         raises=(ScalarOutOfRange,), max_steps=3000000,
         bounds="public-key mode (DH over a 32-bit group, ECDH P256/P384/P521): 3 consecutive protect calls with identical arguments for a caller who only receives the group public key "
         "(the same KeyCache object in every call, with or without an explicit root key id; the DC stub returns the same public-key envelope whenever asked); each blob's ephemeral public key must be the group element of a private key that is an RNG draw "
         "(ceil(private_key_length/8) bytes) no other blob or role uses, CEK and GCM nonce likewise", outside="longer sequences",
         must_reach=("public-key mode: ephemeral key, CEK and nonce are RNG output",))
def fresh_draws_public(c, alg, hash_name, rkid):
    # "DH/g=1", "DH/g=p-1": the group public key the DC hands out carries the right prime but a degenerate generator (not the one of the secret agreement parameters):
    # the library may refuse it; if it emits blobs, their ephemeral keys must still be fresh
    alg, _, keygen = alg.partition("/g=")
    import uuid

    from dpapi_ng import _client, _gkdi

    from symex import values as V

    lo, _ = e2e.window(361, 9, 9, -10, -10)
    holder = {}

    def get_key(*a, **k):
        holder["rpc"] = holder.get("rpc", 0) + 1
        return c.call(_gkdi.GroupKeyEnvelope.unpack, holder["env"])

    w = e2e.new_world(c, lo, lo, extra=[(_client._sync_get_key, get_key)])
    priv_bits = {"DH": 512, "ECDH_P256": 256, "ECDH_P384": 384, "ECDH_P521": 521}[alg]
    nbytes = (priv_bits + 7) // 8
    x = c.int("group_private", 1, (1 << 200))
    if alg == "DH":
        # a small group keeps the element comparisons cheap for the solver; the code under test is indifferent to the group size
        prm = _gkdi.FFCDHParameters(4, 0xFFFFFFFB, 5)
        y = w.algebra.pow(prm.generator, x, prm.field_order)
        kg = {"": prm.generator, "1": 1, "p-1": prm.field_order - 1}[keygen]
        pub = refs.ref_ffcdh_key(prm.key_length, prm.field_order, kg, y)
        sec_params, publen = prm.pack(), 32
    else:
        cname = {"ECDH_P256": "secp256r1", "ECDH_P384": "secp384r1", "ECDH_P521": "secp521r1"}[alg]
        el = w.algebra._ec_element(cname, ("G", "G"), [x])
        pub = refs.ref_ecdh_key(alg[-4:], nbytes, el["x"], el["y"])
        sec_params, publen = b"", priv_bits
    holder["env"] = refs.ref_group_key_envelope(1, 3, 361, 9, 9, e2e.RK.bytes_le, "SP800_108_CTR_HMAC", refs.ref_kdf_parameters(hash_name), alg, sec_params, priv_bits, publen, "d.t", "f.t", b"", pub)
    cache = dpapi_ng.KeyCache()
    pt = c.bytes("pt", 9)
    conds, used, eph_used = [], [], []
    refused = 0
    for i in range(3):
        try:
            blob = c.call(dpapi_ng.ncrypt_protect_secret, pt, e2e.SIDS[0], server="dc", cache=cache, root_key_identifier=e2e.RK if rkid else None)
        except ValueError:
            if not keygen:
                raise
            refused += 1
            continue
        b = c.call(_blob.DPAPINGBlob.unpack, blob)
        cs, us = _material(c, w, blob, public=True)
        conds += cs + [b.key_identifier.is_public_key]
        used += us
        # the ephemeral public key is the group element of an RNG draw of ceil(private_key_length/8) octets that no other blob / role uses
        if alg == "DH":
            k = c.call(_gkdi.FFCDHKey.unpack, b.key_identifier.key_info)
        else:
            k = c.call(_gkdi.ECDHKey.unpack, b.key_identifier.key_info)
        hit = None
        for di, d in enumerate(w.draws):
            if d[0] != "urandom" or d[1] != nbytes or any(u[0] == di for u in used + eph_used):
                continue
            e = V.int_from_bytes(d[2], "big") if c.symbolic else int.from_bytes(d[2], "big")
            if alg == "DH":
                same_el = k.public_key == w.algebra.pow(prm.generator, e, prm.field_order)
            else:
                mine = w.algebra._ec_element(cname, ("G", "G"), [e])
                same_el = all_of([k.x == mine["x"], k.y == mine["y"]])
            if truth(same_el):
                hit = (di, 0, nbytes)
                break
        conds.append(hit is not None)
        if hit is not None:
            eph_used.append(hit)
    c.check(all_of(conds), "public-key mode: ephemeral key, CEK and nonce are RNG output")
    n_ok = 3 - refused
    c.check(len(used) == 2 * n_ok and len(eph_used) == n_ok and _disjoint(used + eph_used), "no RNG output is used twice (across calls and roles)")
    return len(w.draws)


@harness(P, per_job=True, params=lambda tier: [dict(ncalls=n, hash_name="SHA256") for n in ([34] if tier == "quick" else [34, 130, 260])], max_steps=30000000, native_step_limit=12000000,
         bounds="long histories in one process: 34 (quick) / 130 and 260 (thorough) consecutive protect calls on one cache (sync and async alternating, an unprotect after every 7th call), nonce mode, "
         "clock fixed: every blob's CEK, GCM nonce and key-identifier nonce are RNG output and no piece of RNG output is used twice - whatever pooling, batching or "
         "memoisation the implementation does across calls", outside="longer histories", must_reach=("long history: every blob's CEK, nonce and key-identifier nonce are RNG output",))
def many_calls(c, ncalls, hash_name):
    lo, hi = e2e.window(361, 9, 9, -10, -10)
    w = e2e.new_world(c, lo, lo)
    root = c.bytes("root", 64)
    cache = e2e.loaded_cache(c, root, hash_name)
    pt = c.bytes("pt", 5)
    conds, used = [], []
    for i in range(ncalls):
        if i % 2 == 0:
            blob = c.call(dpapi_ng.ncrypt_protect_secret, pt, e2e.SIDS[0], root_key_identifier=e2e.RK, cache=cache)
        else:
            blob = c.call_async(dpapi_ng.async_ncrypt_protect_secret, pt, e2e.SIDS[0], root_key_identifier=e2e.RK, cache=cache)
        cs, us = _material(c, w, blob)
        conds += cs
        used += us
        if i % 7 == 6:
            out = c.call(dpapi_ng.ncrypt_unprotect_secret, blob, cache=cache)
            conds.append(seq_eq(out, pt))
    c.check(all_of(conds), "long history: every blob's CEK, nonce and key-identifier nonce are RNG output")
    c.check(len(used) == 3 * ncalls and _disjoint(used), "long history: no RNG output is used twice")
    return len(w.draws)


@harness(P, per_job=True, params=[dict(hash_name="SHA256")], max_steps=6000000,
         bounds="a process that forks: after one protect call the module-level state of the library is captured; the parent makes a protect call, the state is put back to the "
         "captured one (what the child inherited) and the child makes a protect call, the RNG giving the two processes different output: the three blobs must not share any RNG "
         "output (no pool, batch or memo filled before the fork may be consumed on both sides)", outside="state kept outside the library's modules",
         must_reach=("fork: parent and child share no RNG output",))
def fork_history(c, hash_name):
    from vlib import api

    lo, hi = e2e.window(361, 9, 9, -10, -10)
    w = e2e.new_world(c, lo, lo)
    root = c.bytes("root", 64)
    cache = e2e.loaded_cache(c, root, hash_name)
    pt = c.bytes("pt", 5)
    conds, used = [], []

    def protect():
        blob = c.call(dpapi_ng.ncrypt_protect_secret, pt, e2e.SIDS[0], root_key_identifier=e2e.RK, cache=cache)
        cs, us = _material(c, w, blob)
        conds.extend(cs)
        used.extend(us)

    protect()
    inherited = api.ModuleState.capture()
    protect()  # parent
    api.ModuleState.apply(inherited)
    protect()  # child
    c.check(all_of(conds), "fork: every blob's CEK, nonce and key-identifier nonce are RNG output")
    c.check(len(used) == 9 and _disjoint(used), "fork: parent and child share no RNG output")
    return len(w.draws)

"""C19 - every encryption uses fresh CEK, nonce and key-identifier randomness."""
from __future__ import annotations

import dpapi_ng
from dpapi_ng import _blob

from vlib.api import all_of, harness, truth

from . import e2e, refs
from .world import ScalarOutOfRange  # noqa
from .world import lookup, same_syms, seq_eq

META = dict(assumptions=[
    "randomness cannot be quantified over; the decided statement is its deterministic core: every emitted blob's GCM nonce, content-encryption key and key-identifier nonce are "
    "each the value of an RNG draw (os.urandom / AESGCM.generate_key) made during that very call, each draw serves exactly one role, and no draw is shared between calls. "
    "Pairwise distinctness then follows from the RNG (stated assumption).",
])
P = "C19"


def _roles(c, w, blob_bytes, draws):
    """checks one emitted blob against the draws made during its call; returns the list of conditions"""
    b = c.call(_blob.DPAPINGBlob.unpack, blob_bytes)
    d12 = [d for d in draws if d[1] == 12]
    d32u = [d for d in draws if d[1] == 32 and d[0] == "urandom"]
    d32k = [d for d in draws if d[1] == 32 and d[0] == "generate_key"]
    conds = [len(draws) == 3, len(d12) == 1, len(d32u) == 1, len(d32k) == 1]
    if not all(conds):
        return conds
    conds.append(seq_eq(b.enc_content_parameters, refs.ref_gcm_parameters(d12[0][2])))
    conds.append(seq_eq(b.key_identifier.key_info, d32u[0][2]))
    # the wrapped key behind enc_cek is the generate_key draw, and the content was sealed under exactly (that key, that nonce)
    wrec = [r for r in w.wraps if same_syms(r[0][1], b.enc_cek)]
    conds.append(len(wrec) == 1 and seq_eq(wrec[0][1], d32k[0][2]))
    arec = [r for r in w.aead if same_syms(r[0][2], b.enc_content)]
    conds.append(len(arec) == 1 and all_of([seq_eq(arec[0][0][0], d32k[0][2]), seq_eq(arec[0][0][1], d12[0][2])]))
    return conds


@harness(P, per_job=True, params=lambda tier: [dict(ncalls=3, hash_name="SHA512", same=True), dict(ncalls=2, hash_name="SHA1", same=False)] +
         ([dict(ncalls=4, hash_name=h, same=s) for h in ("SHA256", "SHA384") for s in (True, False)] if tier == "thorough" else []), max_steps=3000000,
         bounds="2..3 (quick) / 4 (thorough) consecutive protect calls on one cache with identical or different arguments, nonce mode, one unprotect interleaved after the first call; "
         "clock fixed inside one interval", outside="longer call sequences (each call is the same code from the same cache state class); public-key mode (see C03)",
         must_reach=("every blob uses draws of its own call, one role each", "no draw shared between calls"))
def fresh_draws(c, ncalls, hash_name, same):
    lo, hi = e2e.window(361, 9, 9, -10, -10)
    w = e2e.new_world(c, lo, lo)  # the clock is not the subject here: one fixed instant
    root = c.bytes("root", 64)
    cache = e2e.loaded_cache(c, root, hash_name)
    pts = [c.bytes("pt", 9)] * ncalls if same else [c.bytes(f"pt{i}", 9) for i in range(ncalls)]
    spans, blobs = [], []
    for i in range(ncalls):
        before = len(w.draws)
        blob = c.call(dpapi_ng.ncrypt_protect_secret, pts[i], e2e.SIDS[0 if same else i % 2], root_key_identifier=e2e.RK, cache=cache)
        spans.append((before, len(w.draws)))
        blobs.append(blob)
        if i == 0:
            out = c.call(dpapi_ng.ncrypt_unprotect_secret, blob, cache=cache)
            c.check(all_of([seq_eq(out, pts[0]), len(w.draws) == spans[0][1]]), "unprotect draws no randomness")
    conds = []
    for i, blob in enumerate(blobs):
        conds += _roles(c, w, blob, w.draws[spans[i][0] : spans[i][1]])
    c.check(all_of([x if isinstance(x, bool) else x for x in conds]), "every blob uses draws of its own call, one role each")
    names = [id(d[2]) for d in w.draws]
    c.check(len(set(names)) == len(names) == 3 * ncalls and all(spans[i][1] == spans[i + 1][0] for i in range(ncalls - 1)), "no draw shared between calls")
    return len(w.draws)


@harness(P, per_job=True, params=lambda tier: [dict(alg=a, hash_name=h) for a, h in ([("DH", "SHA256"), ("ECDH_P256", "SHA512")] if tier == "quick" else
                                                                        [("DH", "SHA1"), ("DH", "SHA256"), ("ECDH_P256", "SHA512"), ("ECDH_P384", "SHA384")])],
         raises=(ScalarOutOfRange,), max_steps=3000000,
         bounds="public-key mode (DH over a 32-bit group, ECDH P256/P384): 3 consecutive protect calls with identical arguments for a caller who only receives the group public key "
         "(every call asks the DC stub, which returns the same public-key envelope); each blob's ephemeral public key must be the group element of a private key drawn from the RNG "
         "during that very call (ceil(private_key_length/8) bytes), CEK and GCM nonce likewise", outside="longer sequences; P521",
         must_reach=("public-key mode: ephemeral key, CEK and nonce are draws of the call",))
def fresh_draws_public(c, alg, hash_name):
    import uuid

    from dpapi_ng import _client, _gkdi

    from symex import values as V

    lo, _ = e2e.window(361, 9, 9, -10, -10)
    holder = {}

    def get_key(*a, **k):
        holder["rpc"] = holder.get("rpc", 0) + 1
        return c.call(_gkdi.GroupKeyEnvelope.unpack, holder["env"])

    w = e2e.new_world(c, lo, lo, extra=[(_client._sync_get_key, get_key)])
    priv_bits = {"DH": 512, "ECDH_P256": 256, "ECDH_P384": 384}[alg]
    nbytes = priv_bits // 8
    x = c.int("group_private", 1, (1 << 200))
    if alg == "DH":
        # a small group keeps the element comparisons cheap for the solver; the code under test is indifferent to the group size
        prm = _gkdi.FFCDHParameters(4, 0xFFFFFFFB, 5)
        y = w.algebra.pow(prm.generator, x, prm.field_order)
        pub = refs.ref_ffcdh_key(prm.key_length, prm.field_order, prm.generator, y)
        sec_params, publen = prm.pack(), 32
    else:
        cname = {"ECDH_P256": "secp256r1", "ECDH_P384": "secp384r1"}[alg]
        el = w.algebra._ec_element(cname, ("G", "G"), [x])
        pub = refs.ref_ecdh_key(alg[-4:], nbytes, el["x"], el["y"])
        sec_params, publen = b"", priv_bits
    holder["env"] = refs.ref_group_key_envelope(1, 3, 361, 9, 9, e2e.RK.bytes_le, "SP800_108_CTR_HMAC", refs.ref_kdf_parameters(hash_name), alg, sec_params, priv_bits, publen, "d.t", "f.t", b"", pub)
    cache = dpapi_ng.KeyCache()
    pt = c.bytes("pt", 9)
    conds = []
    seen_ids = []
    for i in range(3):
        before = len(w.draws)
        blob = c.call(dpapi_ng.ncrypt_protect_secret, pt, e2e.SIDS[0], server="dc", cache=cache)
        draws = w.draws[before:]
        b = c.call(_blob.DPAPINGBlob.unpack, blob)
        eph = [d for d in draws if d[0] == "urandom" and d[1] == nbytes]
        d12 = [d for d in draws if d[1] == 12]
        d32k = [d for d in draws if d[0] == "generate_key"]
        ok = [len(draws) == 3, len(eph) == 1, len(d12) == 1, len(d32k) == 1, holder.get("rpc") == i + 1, b.key_identifier.is_public_key]
        if all(ok):
            e = V.int_from_bytes(eph[0][2], "big") if c.symbolic else int.from_bytes(eph[0][2], "big")
            if alg == "DH":
                k = c.call(_gkdi.FFCDHKey.unpack, b.key_identifier.key_info)
                ok.append(k.public_key == w.algebra.pow(prm.generator, e, prm.field_order))
            else:
                k = c.call(_gkdi.ECDHKey.unpack, b.key_identifier.key_info)
                mine = w.algebra._ec_element(cname, ("G", "G"), [e])
                ok.append(all_of([k.x == mine["x"], k.y == mine["y"]]))
            ok.append(seq_eq(b.enc_content_parameters, refs.ref_gcm_parameters(d12[0][2])))
            wrec = [r for r in w.wraps if same_syms(r[0][1], b.enc_cek)]
            ok.append(len(wrec) == 1 and seq_eq(wrec[0][1], d32k[0][2]))
        conds += ok
        seen_ids += [id(d[2]) for d in draws]
    c.check(all_of([x_ if isinstance(x_, bool) else x_ for x_ in conds]), "public-key mode: ephemeral key, CEK and nonce are draws of the call")
    c.check(len(set(seen_ids)) == 9, "no draw shared between calls")
    return len(w.draws)

"""shared end-to-end machinery: protect/unprotect against the ideal-primitive world"""
from __future__ import annotations

import uuid

import dpapi_ng
from dpapi_ng import _blob, _client, _crypto, _gkdi

from .world import ScalarOutOfRange, World  # noqa

RK = uuid.UUID("2e1b932a-4e21-ced3-0b7b-8815aff8335d")
EPOCH = 116444736000000000
B = 360000000000
L0_TICKS = 1024 * B
SIDS = ["S-1-5-18", "S-1-5-21-2185496602-3367037166-1388177638-1103", "S-1-0-0-4294967295", "S-1-5-21-1-2-3-4-5", "S-1-5-1-2-3-4-5-6-7-8-9-10-11-12-13-14-4294967295"]


def ns_of_filetime(ft):
    return (ft - EPOCH) * 100


def window(l0, l1, l2, before_ticks, after_ticks):
    """[lo, hi] in time_ns() units around the start of interval (l0, l1, l2)"""
    start = l0 * L0_TICKS + l1 * 32 * B + l2 * B
    return ns_of_filetime(start - before_ticks), ns_of_filetime(start + after_ticks) + 99


def new_world(c, t_lo=None, t_hi=None, concrete=False, extra=()):
    t = c.int("time_ns", t_lo, t_hi) if t_lo is not None else None
    w = World(c, t_ns=t, concrete=concrete)
    from .world import Algebra

    w.algebra = Algebra(w)
    extra = list(extra) + w.algebra.stubs()
    # NB: stubs are installed exactly once per run (in native mode a second call would see the already patched module attributes)
    c.stubs(w.stubs(_crypto.kdf, _crypto.kdf_concat) + list(extra))
    return w


def loaded_cache(c, root, hash_name="SHA512", rk=RK, **kw):
    cache = dpapi_ng.KeyCache()
    c.call(cache.load_key, root, rk, kdf_parameters=_gkdi.KDFParameters(hash_name).pack(), **kw)
    return cache


def plaintext(c, n, name="pt"):
    from . import refs

    if n <= 48:
        return c.bytes(name, n)
    return refs.cat(c.bytes(name + "_head", 17), bytes(n - 34), c.bytes(name + "_tail", 17))

"""C05 - decrypting untrusted bytes ends promptly with a deliberate error type."""
from __future__ import annotations

import uuid

import dpapi_ng
from cryptography.exceptions import InvalidTag
from cryptography.hazmat.primitives.keywrap import InvalidUnwrap
from dpapi_ng import _asn1, _blob, _client, _crypto, _gkdi, _pkcs7

from symex import values as V
from vlib.api import all_of, harness

from . import blobmut, e2e, refs

META = dict(assumptions=[
    "deliberate error types: ValueError (incl. UnicodeDecodeError), NotImplementedError, the ASN.1 NotEnougData, InvalidTag, InvalidUnwrap; a cache miss (attempt to locate / "
    "contact a domain controller) is an allowed outcome and is modelled by a stub that raises NeedsNetwork",
    "bounded work is decided as a per-path budget of interpreted statements (stated per harness) and at most 67 key-derivation steps",
    "composition (by inspection of the call graph, not by the solver): every exception escaping unprotect is raised inside one of the units below, and the units are entered only "
    "with sub-buffers of the input",
])
P = "C05"
ALLOWED = (ValueError, NotImplementedError, _asn1.NotEnougData, InvalidTag, InvalidUnwrap, blobmut.NeedsNetwork)


@harness(P, params=lambda tier: [dict(n=n) for n in ([0, 1, 2, 4, 8] if tier == "quick" else range(0, 17))], raises=ALLOWED, budget_violation=True, max_steps=3000,
         bounds="_read_asn1_header on every byte string of length n (all 256^n), n in {0,1,2,4,8} quick / 0..16 thorough; budget 3000 statements", must_reach=())
def header_any(c, n):
    h = c.call(_asn1._read_asn1_header, c.bytes("buf", n))
    return True


READERS = ["_read_asn1_boolean", "_read_asn1_enumerated", "_read_asn1_generalized_time", "_read_asn1_integer", "_read_asn1_object_identifier", "_read_asn1_octet_string",
           "_read_asn1_sequence", "_read_asn1_set", "_read_asn1_utf8_string"]


@harness(P, params=lambda tier: [dict(fn=f, n=n) for f in READERS for n in ([2, 5] if tier == "quick" else [0, 1, 2, 3, 4, 5, 6, 7]) if not (n > 6 and "string" in f or n > 6 and "time" in f)],
         raises=ALLOWED, budget_violation=True,
         max_steps=4000, bounds="every _read_asn1_* reader on every byte string of the listed lengths (2 and 5 quick; 0..7 thorough, text readers 0..6): deliberate error type or a value, within 4000 statements",
         outside="longer arbitrary buffers", must_reach=())
def reader_any(c, fn, n):
    c.call(getattr(_asn1, fn), c.bytes("buf", n))
    return True


def _unit_params(tier):
    return [dict(unit=u, n=n) for u in ("ContentInfo", "EnvelopedData", "ProtectionDescriptor", "content_decrypt") for n in ([3, 5] if tier == "quick" else [0, 2, 3, 4, 5, 6, 7, 8])]


@harness(P, params=_unit_params, raises=ALLOWED, budget_violation=True, max_steps=20000,
         bounds="ContentInfo.unpack, EnvelopedData.unpack, ProtectionDescriptor.unpack and content_decrypt's parameter parser on every byte string of the listed lengths", must_reach=())
def unit_any(c, unit, n):
    buf = c.bytes("buf", n)
    if unit == "ContentInfo":
        c.call(_pkcs7.ContentInfo.unpack, buf)
    elif unit == "EnvelopedData":
        c.call(_pkcs7.EnvelopedData.unpack, buf)
    elif unit == "ProtectionDescriptor":
        c.call(_blob.ProtectionDescriptor.unpack, buf)
    else:
        w = e2e.new_world(c)
        c.call(_crypto.content_decrypt, "2.16.840.1.101.3.4.1.46", buf, b"K" * 32, b"C" * 20)
    return True


@harness(P, params=lambda tier: [dict(tail=t) for t in ([0, 4] if tier == "quick" else [0, 1, 2, 3, 4, 6, 8, 12])], raises=ALLOWED, budget_violation=True, max_steps=20000,
         bounds="KeyIdentifier.unpack on a 52-byte header whose version, flags, L0, L1, L2, root key id and the three length fields are fully symbolic (lengths up to 2^32-1) followed by "
         "a symbolic tail of the listed size", outside="longer tails", must_reach=())
def keyid_any(c, tail):
    buf = refs.cat(c.bytes("version", 4), b"KDSK", c.bytes("fields", 44), c.bytes("tail", tail))
    k = c.call(_blob.KeyIdentifier.unpack, buf)
    return True


@harness(P, params=lambda tier: [dict(pub=False, route="root", quick=tier == "quick"), dict(pub=False, route="seed", quick=tier == "quick"),
                                 dict(pub=True, route="root", quick=tier == "quick")], raises=ALLOWED, budget_violation=True, max_steps=60000,
         native_step_limit=300000,
         bounds="key-identifier fields of a blob driven through KeyCache._get_key -> GroupKeyEnvelope.get_kek -> compute_l2_key with the ideal KDF: L0 (4 classes: 0, 361, 2^31-1, >= 2^31), L1, L2 (all of [0,2^32) except the interior 2..29 of the valid range, which is C02's lattice) and flags symbolic; cache holds the root key (route=root) or a cached seed-key envelope at (L0=361, 3, 5) (route=seed); at most 67 KDF steps (2 root->L1(31), 63 down to (0,0), 2 for the KEK) on every path",
         outside="", must_reach=("at most 67 key-derivation steps",))
def keyid_positions(c, pub, route, quick):
    w = e2e.new_world(c)
    root = c.bytes("root", 64)
    cache = dpapi_ng.KeyCache()
    l0 = c.int("l0", 0, (1 << 32) - 1)
    if route == "root":
        c.call(cache.load_key, root, e2e.RK)
    else:
        env = _gkdi.GroupKeyEnvelope(1, 2, 361, 3, 5, e2e.RK, "SP800_108_CTR_HMAC", _gkdi.KDFParameters("SHA512").pack(), "DH", b"", 512, 2048, "", "", c.bytes("l1k", 64), c.bytes("l2k", 64))
        c.call(cache._store_key, b"sd", env)
    l1, l2 = c.int("l1", 0, (1 << 32) - 1), c.int("l2", 0, (1 << 32) - 1)
    # in-range positions other than the corners are C02's lattice (every one of them is a separate derivation path); here: everything out of range + the corners
    from vlib.api import any_of
    c.assume(any_of([l1 < 2, l1 > 29]))
    c.assume(any_of([l2 < 2, l2 > 29]))
    if quick and pub:
        c.assume(all_of([l1 > 29, l2 > 29]))  # quick tier, public-key mode: positions next to the root envelope only (short derivation chains)
    flags = c.int("flags", 0, (1 << 32) - 1)
    c.assume(((flags & 1) != 0) if pub else ((flags & 1) == 0))
    # L0 is a dictionary key inside KeyCache: fork over the interesting classes instead of 2^32 values
    cls = c.concretize(c.int("l0_class", 0, 3))
    if quick and cls in (1, 2):
        c.assume(False)  # quick tier: L0 classes 361 and >= 2^31 only
    l0v = [361, 0, (1 << 31) - 1, None][cls]
    if l0v is None:
        c.assume(l0 >= (1 << 31))
        l0v = c.concretize(l0) if False else (1 << 31) + 5
    kid = _blob.KeyIdentifier(1, flags, l0v, l1, l2, e2e.RK, c.bytes("keyinfo", 32), "", "")
    rk = c.call(cache._get_key, b"sd", e2e.RK, kid.l0, kid.l1, kid.l2)
    if rk is None:
        return "cache miss"
    try:
        kek = c.call(rk.get_kek, kid)
    finally:
        c.check(c.counter("kdf") <= 67, "at most 67 key-derivation steps")
    return "kek"


def _blob_params(tier):
    out = []
    for layout in ("envelope",) if tier == "quick" else ("envelope", "trailing"):
        pos = blobmut.positions(tier, layout)
        if tier == "quick":
            pos = pos[1::7]
            kid = blobmut.blob_layout(layout)["kid"]
            pos = [q for q in pos if not (kid + 17 <= q < kid + 24)] + [kid + 16]  # one L1 octet in quick (256 derivation chains each), all in thorough
        out += [dict(kind="byte", p=p, layout=layout) for p in pos]
        n = blobmut.blob_layout(layout)["length"]
        cuts = range(0, n) if tier == "thorough" else sorted(set(list(range(7, n, 31)) + [1, 2, n - 1]))
        out += [dict(kind="trunc", p=p, layout=layout) for p in cuts]
    return out


@harness(P, params=_blob_params, raises=ALLOWED, budget_violation=True, max_steps=400000, native_step_limit=3_000_000,
         bounds="ncrypt_unprotect_secret (offline, root key loaded) on a valid symbolic blob with one byte replaced by a symbolic value at the structural positions (quick: every 7th; "
         "thorough: every position, both layouts) and truncated at listed / every length: deliberate error type, a return or a cache miss, within 400000 statements",
         outside="whole-blob arbitrary buffers of realistic size (about 2^3000 inputs, not collapsible)", must_reach=())
def altered_blob(c, kind, p, layout):
    # structure-shifting alterations are run on a blob whose opaque contents (keys, nonces, ciphertext) are fixed pseudo-random octets: with symbolic contents a
    # shifted parse reads solver variables as ASN.1 headers and one position alone exceeded 60000 paths; content octets themselves are altered on the symbolic blob
    lay = blobmut.blob_layout(layout)
    concrete = not (kind == "byte" and p in lay["edges"])
    w, pt, out = blobmut.unprotect_altered(c, kind, p, layout, concrete=concrete)
    c.check(c.counter("kdf") <= 4 + 67, "bounded key-derivation work")
    return True


@harness(P, params=lambda tier: [dict(n=n) for n in ([1, 2, 5, 15] if tier == "quick" else range(1, 16))], raises=ALLOWED, budget_violation=True, max_steps=20000,
         bounds="the protection descriptor's SID as a structured string S-R-A-s1..sn (n in {1,2,5,15} quick / 1..15 thorough) with R in [0,9], A in [0,2^70), si in [0,2^34) symbolic, through "
         "SIDDescriptor.get_target_sd(): a deliberate error type or a descriptor, never OverflowError / struct.error", must_reach=())
def sid_values(c, n):
    from .c08 import _sid_str

    s, r, a, subs = _sid_str(c, n)
    c.call(_blob.SIDDescriptor(s).get_target_sd)
    return True


# structurally valid DER with shapes the decoder does not expect: (name, builder knobs)
SHAPES = ["no_recipient", "two_recipients", "three_recipients", "kekri_tag_1", "kekri_tag_3", "no_kek_other", "empty_eci", "eci_no_params", "empty_envelope", "content_absent",
          "empty_content_wrapper", "kekid_empty", "recipient_not_constructed", "extra_field_after_eci", "version_symbolic", "deep_content", "deep_outer", "deep_recipient", "kek_other_is_set", "kek_other_is_octets", "kek_extra_boolean", "kek_date_then_other"]


def _shaped_blob(c, shape):
    """CMS ContentInfo built with the independent DER builder of props/refs.py around symbolic leaf values"""
    from .refs import cat, der_ctx, der_octets, der_oid, der_seq, der_set

    kid = refs.ref_key_identifier(1, 0, 361, 31, 31, e2e.RK.bytes_le, c.bytes("key_info", 32), "domain.test", "domain.test")
    sid = e2e.SIDS[1]
    enc_cek, content, nonce = c.bytes("enc_cek", 40), c.bytes("content", 21), c.bytes("nonce", 12)
    def nest(inner, tag, depth=3000):
        """`depth` constructed TLVs around inner (about 4 octets each): far deeper than any recursion limit"""
        n, hdrs = len(inner), []
        for _ in range(depth):
            h = bytes([tag]) + bytes(refs.der_len(n))
            hdrs.append(h)
            n += len(h)
        return cat(b"".join(reversed(hdrs)), inner)

    ver = lambda name, dflt: (refs.cat(bytes([2, 1]), c.bytes(name, 1)) if shape == "version_symbolic" else bytes([2, 1, dflt]))
    other = der_seq(der_oid("1.3.6.1.4.1.311.74.1"), refs.ref_protection_descriptor(sid))
    kekid = der_seq() if shape == "kekid_empty" else (der_seq(der_octets(kid)) if shape == "no_kek_other" else der_seq(der_octets(kid), other))
    if shape == "kek_other_is_set":
        kekid = der_seq(der_octets(kid), der_set(der_oid("1.3.6.1.4.1.311.74.1"), refs.ref_protection_descriptor(sid)))
    elif shape == "kek_other_is_octets":
        kekid = der_seq(der_octets(kid), der_octets(c.bytes("stray", 3)))
    elif shape == "kek_extra_boolean":
        kekid = der_seq(der_octets(kid), bytes([1, 1, 0xFF]), other)
    elif shape == "kek_date_then_other":
        kekid = der_seq(der_octets(kid), cat(bytes([0x18, 15]), b"20240101000000Z"), other)
    body = cat(ver("v_kekri", 4), kekid, der_seq(der_oid("2.16.840.1.101.3.4.1.45")), der_octets(enc_cek))
    tagn = {"kekri_tag_1": 1, "kekri_tag_3": 3}.get(shape, 2)
    kekri = der_ctx(tagn, shape != "recipient_not_constructed", body)
    if shape == "deep_recipient":
        kekri = nest(kekri, 0xA2)
    recips = {"no_recipient": [], "two_recipients": [kekri, kekri], "three_recipients": [kekri, kekri, kekri]}.get(shape, [kekri])
    params = refs.ref_gcm_parameters(nonce)
    if shape == "empty_eci":
        eci = der_seq()
    elif shape == "eci_no_params":
        eci = der_seq(der_oid("1.2.840.113549.1.7.1"), der_seq(der_oid("2.16.840.1.101.3.4.1.46")), der_ctx(0, False, content))
    elif shape == "content_absent":
        eci = der_seq(der_oid("1.2.840.113549.1.7.1"), der_seq(der_oid("2.16.840.1.101.3.4.1.46"), params))
    elif shape == "deep_content":
        # BER constructed OCTET STRING segments (X.690 8.7.3) nested 3000 deep inside a constructed [0]
        eci = der_seq(der_oid("1.2.840.113549.1.7.1"), der_seq(der_oid("2.16.840.1.101.3.4.1.46"), params), der_ctx(0, True, nest(der_octets(content), 0x24)))
    else:
        eci = der_seq(der_oid("1.2.840.113549.1.7.1"), der_seq(der_oid("2.16.840.1.101.3.4.1.46"), params), der_ctx(0, False, content))
    parts = [ver("v_env", 2), der_set(*recips), eci]
    if shape == "extra_field_after_eci":
        parts.append(der_ctx(1, True, der_seq(der_oid("1.2.3"), der_set(der_octets(b"x")))))
    env = der_seq() if shape == "empty_envelope" else der_seq(*parts)
    if shape == "deep_outer":
        env = nest(env, 0x30)
    wrapper = der_ctx(0, True, b"" if shape == "empty_content_wrapper" else env)
    return cat(der_seq(der_oid("1.2.840.113549.1.7.3"), wrapper))


@harness(P, per_job=True, params=[dict(shape=s) for s in SHAPES], raises=ALLOWED, budget_violation=True, max_steps=400000,
         bounds="22 listed re-encodings of the CMS structure that are valid DER but not the expected shape (0 / 2 / 3 recipients, other recipient tags, missing optional or "
         "mandatory members, empty SEQUENCEs, an extra member, symbolic version octets, constructed values nested 3000 deep at three places), built with the independent DER builder around symbolic leaf values; DPAPINGBlob.unpack and "
         "the offline unprotect must end in a return, a cache miss or a deliberate error type", outside="other shapes", must_reach=("shape decoded or refused deliberately",))
def shape_variants(c, shape):
    import dpapi_ng

    blob = _shaped_blob(c, shape)
    lo, _ = e2e.window(361, 31, 31, -7, -7)
    w = e2e.new_world(c, lo, lo, extra=[(blobmut._dns.lookup_dc, blobmut._no_network), (blobmut._client._sync_get_key, blobmut._no_network)])
    cache = e2e.loaded_cache(c, c.bytes("root", 64), "SHA512")
    c.reach("shape decoded or refused deliberately")
    try:
        c.call(_blob.DPAPINGBlob.unpack, blob)
    except ALLOWED:
        pass
    out = c.call(dpapi_ng.ncrypt_unprotect_secret, blob, cache=cache)
    return len(out)

"""C06 - emitted blobs are canonical CMS in Windows' layout; encode/decode are inverse."""
from __future__ import annotations

import glob
import json
import uuid

from dpapi_ng import _blob, _client

from symex import values as V
from symex.interp import SymUUID
from vlib.api import all_of, harness, struct_eq

from . import refs
from .world import World, seq_eq

META = dict(assumptions=[
    "the reference DER builder in props/refs.py (X.690 + RFC 5652 + RFC 5084, written independently) produces the Windows template; the template is calibrated against "
    "the 16 NCryptProtectSecret blobs in tests/data (strict DER parse and byte-identical re-encoding)",
])
P = "C06"
U32 = (1 << 32) - 1
SIDS = ["S-1-5-18", "S-1-5-21-2185496602-3367037166-1388177638-1103", "S-1-0-0", "S-9-281474976710655-4294967295-0-1-2-3-4-5-6-7-8-9-10-11-12-4294967295"]
NAMES = ["", "domain.test", "dépôt.中文", "x\U0001F600y"]


def _content(c, n):
    if n <= 8:
        return c.bytes("content", n)
    return refs.cat(c.bytes("content_head", 4), bytes(n - 8), c.bytes("content_tail", 4))


OIDS = [("2.16.840.1.101.3.4.1.45", "2.16.840.1.101.3.4.1.46"), ("1.2.840.10045.3.0", "0.4.0.127.0.7.1.1.5.1.1.3"), ("2.999.0.18446744073709551615.0", "0.0"),
        ("2.40.1", "2.47.5.6"), ("2.39", "1.39.128")]
# optional parameters of the key-encryption AlgorithmIdentifier: absent, an explicit DER NULL, an OCTET STRING
CEK_PARAMS = [None, b"\x05\x00", b"\x04\x01\x00"]


def _params(tier):
    lens = [0, 1, 16, 127, 128, 255, 256, 65535, 65536] if tier == "quick" else [0, 1, 2, 16, 17, 126, 127, 128, 129, 255, 256, 257, 1000, 65535, 65536, 65537]
    kis = [0, 1, 32, 36, 127, 128, 255, 256, 520, 800]
    out = []
    for i, n in enumerate(lens):
        out.append(dict(n=n, ki=kis[i % len(kis)], sid=SIDS[i % len(SIDS)], dom=NAMES[i % 4], forest=NAMES[(i + 1) % 4], params=(i % 3 != 2)))
    for i, k in enumerate(kis):
        out.append(dict(n=[16, 33][i % 2], ki=k, sid=SIDS[(i + 1) % len(SIDS)], dom=NAMES[(i + 2) % 4], forest=NAMES[(i + 3) % 4], params=(i % 2 == 0)))
    for d in out:
        d["oids"] = 0
    # other algorithm identifiers in the two AlgorithmIdentifier slots: zero arcs, arcs above 2^32, first arc 0 / 2 with a large second arc
    for j in (1, 2, 3, 4):
        out.append(dict(n=33, ki=32, sid=SIDS[j % len(SIDS)], dom=NAMES[j % 4], forest=NAMES[(j + 1) % 4], params=True, oids=j))
    for d in out:
        d["cekp"] = 0
    out += [dict(n=16, ki=32, sid=SIDS[0], dom=NAMES[1], forest=NAMES[2], params=bool(j % 2), oids=0, cekp=j) for j in (1, 2)]
    return out


@harness(P, per_job=True, params=_params, max_steps=400000,
         bounds="blob values: key identifier with version/flags/L0/L1/L2 symbolic in [0,2^32), symbolic root key id, key_info of sizes {0,1,32,36,127,128,255,256,520,800} (symbolic "
         "content), names from {empty, ASCII, BMP, non-BMP}; 4 SID shapes (1..15 sub-authorities, extreme values); enc_cek 40 symbolic bytes; encrypted content of listed lengths "
         "across the DER length-form boundaries (0,1,16,127,128,255,256,65535,65536 quick; more incl. 65537 thorough) with symbolic first/last octets; GCM parameters present (12 symbolic "
         "nonce bytes) / absent; five pairs of algorithm OIDs (the AES ones; OIDs with zero arcs, a 64-bit arc, first arc 0 and 2, 2.39 / 2.40 / 2.47, 1.39); key-encryption parameters absent / explicit NULL / an OCTET STRING; both layouts", outside="content lengths and key_info sizes not listed",
         must_reach=("in-envelope: bytes equal the Windows CMS template", "trailing: bytes equal the Windows CMS template", "decode(encode(x)) == x (both layouts)",
                     "re-encoding a decoded blob gives identical bytes"))
def blob(c, n, ki, sid, dom, forest, params, oids, cekp):
    ints = {k: c.int(k, 0, U32) for k in ("version", "flags", "l0", "l1", "l2")}
    rkb = c.bytes("rkid", 16)
    rk = SymUUID(bytes_le=rkb) if c.symbolic else uuid.UUID(bytes_le=rkb)
    keyinfo = c.bytes("keyinfo", ki) if ki <= 64 else refs.cat(c.bytes("keyinfo_head", 8), bytes(ki - 16), c.bytes("keyinfo_tail", 8))
    kid = _blob.KeyIdentifier(ints["version"], ints["flags"], ints["l0"], ints["l1"], ints["l2"], rk, keyinfo, dom, forest)
    enc_cek = c.bytes("enc_cek", 40)
    content = _content(c, n)
    nonce = c.bytes("nonce", 12)
    par = refs.ref_gcm_parameters(nonce) if params else None
    cek_alg, content_alg = OIDS[oids]
    cek_par = CEK_PARAMS[cekp]
    x = _blob.DPAPINGBlob(kid, _blob.SIDDescriptor(sid), enc_cek, cek_alg, cek_par, content, content_alg, par)
    kid_ref = refs.ref_key_identifier(ints["version"], ints["flags"], ints["l0"], ints["l1"], ints["l2"], rkb, keyinfo, dom, forest)
    b1 = refs.cat(c.call(x.pack))
    c.check(seq_eq(b1, refs.ref_dpapi_ng_blob(kid_ref, sid, enc_cek, content, par, True, cek_alg, content_alg, cek_par)), "in-envelope: bytes equal the Windows CMS template")
    b2 = refs.cat(c.call(x.pack, blob_in_envelope=False))
    c.check(seq_eq(b2, refs.ref_dpapi_ng_blob(kid_ref, sid, enc_cek, content, par, False, cek_alg, content_alg, cek_par)), "trailing: bytes equal the Windows CMS template")
    y1 = c.call(_blob.DPAPINGBlob.unpack, b1)
    y2 = c.call(_blob.DPAPINGBlob.unpack, b2)
    c.check(all_of([struct_eq(y1, x), struct_eq(y2, x)]), "decode(encode(x)) == x (both layouts)")
    c.check(all_of([seq_eq(refs.cat(c.call(y1.pack)), b1), seq_eq(refs.cat(c.call(y2.pack, blob_in_envelope=False)), b2), seq_eq(refs.cat(c.call(y2.pack)), b1)]),
            "re-encoding a decoded blob gives identical bytes")
    return len(b1)


@harness(P, bounds="_encrypt_blob's own GCM parameter construction: SEQUENCE { OCTET STRING (12-byte nonce drawn from the RNG), INTEGER 16 } and algorithm OIDs, observed in the emitted blob "
         "for a symbolic 20-byte plaintext", must_reach=("emitted blob carries aes256-wrap / aes256-gcm with SEQUENCE{OCTET STRING(12), INTEGER 16}",), max_steps=400000)
def encrypt_blob_params(c):
    from dpapi_ng import _crypto, _gkdi

    w = World(c)
    c.stubs(w.stubs(_crypto.kdf, _crypto.kdf_concat))
    rk = uuid.UUID(int=5)
    env = _gkdi.GroupKeyEnvelope(1, 2, 361, 3, 4, rk, "SP800_108_CTR_HMAC", _gkdi.KDFParameters("SHA512").pack(), "DH", b"", 512, 2048, "d.t", "f.t", b"", c.bytes("l2", 64))
    out = refs.cat(c.call(_client._encrypt_blob, c.bytes("pt", 20), env, _blob.SIDDescriptor("S-1-5-18")))
    y = c.call(_blob.DPAPINGBlob.unpack, out)
    nonce = [d for d in w.draws if d[1] == 12]
    c.check(all_of([y.enc_cek_algorithm == "2.16.840.1.101.3.4.1.45", y.enc_cek_parameters is None, y.enc_content_algorithm == "2.16.840.1.101.3.4.1.46",
                    len(nonce) == 1 and seq_eq(y.enc_content_parameters, refs.ref_gcm_parameters(nonce[0][2])), len(y.enc_content) == 36, len(y.enc_cek) == 40]),
            "emitted blob carries aes256-wrap / aes256-gcm with SEQUENCE{OCTET STRING(12), INTEGER 16}")
    kid_ref = refs.ref_key_identifier(1, 2, 361, 3, 4, rk.bytes_le, y.key_identifier.key_info, "d.t", "f.t")
    c.check(seq_eq(out, refs.ref_dpapi_ng_blob(kid_ref, "S-1-5-18", y.enc_cek, y.enc_content, y.enc_content_parameters, True)), "emitted blob equals the Windows CMS template")
    return len(out)


def calibrate():
    """non-deciding: the reference template reproduces the real Windows blobs byte for byte and they pass the strict DER reader"""
    res = dict(violations=[], inconclusive=[], stats={}, samples=[])
    n = 0
    for f in sorted(glob.glob("/repo/tests/data/kdf_*.json")):
        d = json.load(open(f))
        data = bytes.fromhex(d["Data"]) if all(ch in "0123456789abcdefABCDEF" for ch in d["Data"][:8]) else __import__("base64").b64decode(d["Data"])
        try:
            refs.strict_der_parse(data)
            b = _blob.DPAPINGBlob.unpack(data)
            ref = refs.ref_dpapi_ng_blob(b.key_identifier.pack(), b.protection_descriptor.value, b.enc_cek, b.enc_content, b.enc_content_parameters, True)
            ok = bytes(ref) == data
        except Exception as e:
            ok = False
            res["inconclusive"].append(f"calibration failed on {f}: {e!r}")
        if not ok and not res["inconclusive"]:
            res["inconclusive"].append(f"reference template does not reproduce the Windows blob {f}")
        n += 1
    res["samples"].append(dict(calibrated_against_windows_blobs=n))
    res["windows_blobs_reproduced"] = n
    return res


def extra_checks(tier):
    return [("calibration", calibrate)]


@harness(P, per_job=True, params=lambda tier: [dict(layout=l, hi=h) for l in ("envelope", "trailing") for h in ([(1 << 24) - 1] if tier == "quick" else [(1 << 24) - 1, (1 << 32) - 200])], max_steps=600000,
         bounds="encrypted content whose LENGTH is a solver variable over [1, 2^24) (thorough also up to 2^32-200; opaque content): the three nested DER length fields around it "
         "(EncryptedContentInfo, EnvelopedData, ContentInfo) are proved minimal and equal to the reference template, and the blob decodes back to the same content, for every length",
         outside="content length 0 in this harness (covered by the listed-length harness)", must_reach=("symbolic length: blob equals the CMS template", "symbolic length: decode(encode(x)) == x"))
def blob_symlen(c, layout, hi):
    ints = {k: c.int(k, 0, U32) for k in ("version", "flags", "l0", "l1", "l2")}
    rkb = c.bytes("rkid", 16)
    rk = SymUUID(bytes_le=rkb) if c.symbolic else uuid.UUID(bytes_le=rkb)
    keyinfo = c.bytes("keyinfo", 32)
    kid = _blob.KeyIdentifier(ints["version"], ints["flags"], ints["l0"], ints["l1"], ints["l2"], rk, keyinfo, "domain.test", "f")
    enc_cek = c.bytes("enc_cek", 40)
    content, L = c.blob("content", 1, hi)
    nonce = c.bytes("nonce", 12)
    par = refs.ref_gcm_parameters(nonce)
    sid = SIDS[1]
    x = _blob.DPAPINGBlob(kid, _blob.SIDDescriptor(sid), enc_cek, "2.16.840.1.101.3.4.1.45", None, content, "2.16.840.1.101.3.4.1.46", par)
    kid_ref = refs.ref_key_identifier(ints["version"], ints["flags"], ints["l0"], ints["l1"], ints["l2"], rkb, keyinfo, "domain.test", "f")
    inenv = layout == "envelope"
    b = c.call(x.pack, blob_in_envelope=inenv)
    c.check(b == refs.ref_dpapi_ng_blob(kid_ref, sid, enc_cek, content, par, inenv), "symbolic length: blob equals the CMS template")
    y = c.call(_blob.DPAPINGBlob.unpack, b)
    c.check(all_of([y.enc_content == content, struct_eq(y.key_identifier, kid), seq_eq(y.enc_cek, enc_cek), seq_eq(y.enc_content_parameters, par)]),
            "symbolic length: decode(encode(x)) == x")
    return True

"""Ideal security context at the pyspnego boundary: the repository's own AuthenticationProvider runs (interpreted) on top of it."""
from __future__ import annotations

import types

import spnego.exceptions
import spnego.iov
from dpapi_ng._rpc import _auth, _pdu

from symex import values as V
from vlib.api import all_of, truth

from . import refs
from .world import seq_eq

BT = spnego.iov.BufferType


def SealError(msg=""):
    """the security context rejected the message: the exception pyspnego raises for a bad signature, so that handlers written against
    spnego.exceptions.SpnegoError see it"""
    return spnego.exceptions.BadMICError(context_msg=msg)


def _norm(buf):
    """iov entry -> (type, data)"""
    if isinstance(buf, tuple):
        return buf[0], buf[1]
    if isinstance(buf, BT) or isinstance(buf, int) and not isinstance(buf, bool):
        return buf, None
    if V.is_byteslike(buf):
        return BT.data, buf
    return buf.type, buf.data


class IdealContext:
    """spnego context stand-in.
    wrap_iov: returns Seal(body) and a signature as fresh symbols, records (signed header, body, signed trailer).
    unwrap_iov: returns the recorded plaintext iff data and signature - and the sign_only buffers - are exactly a sealed message; raises otherwise.
    step/complete: scripted tokens (C15)."""

    def __init__(self, c, sig_size=16, tokens=None, final_empty=False, tag=""):
        self.tag = tag  # prefix of the fresh symbols (a second context in one harness)
        self.c, self.sig_size = c, sig_size
        self.sealed = []  # records: dict(signed=[...], body=plain, sealed=..., sig=...)
        self.unwrap_calls = 0
        self.wrap_calls = []
        self.n = 0
        # handshake script
        self.nlegs = tokens
        self.final_empty = final_empty
        self.steps, self.in_tokens, self.out_tokens = 0, [], []
        self.complete = tokens is None

    # -- handshake
    def step(self, in_token=None):
        self.steps += 1
        self.in_tokens.append(in_token)
        last = self.steps >= self.nlegs
        tok = b"" if (last and self.final_empty) else self.c.bytes(f"ctok{self.steps}", 4)
        if last:
            self.complete = True
        self.out_tokens.append(tok)
        return tok if len(tok) else None

    def query_message_sizes(self):
        return types.SimpleNamespace(header=self.sig_size)

    # -- message protection
    def add_authentic(self, header, sealed, trailer, sig, plain):
        """a message the *peer* sealed for us"""
        self.sealed.append(dict(header=header, sealed=sealed, trailer=trailer, sig=sig, plain=plain))

    iov = True  # a context whose provider has no IOV support (e.g. gss-ntlmssp) refuses wrap_iov / unwrap_iov

    def iov_available(self):
        return self.iov

    def wrap_winrm(self, data):
        """the non-IOV sealing primitive: only the data is protected, nothing else is signed"""
        self.n += 1
        sealed = self.c.blob_of_len(f"{self.tag}sealed{self.n}", V.blen(data))
        sig = self.c.bytes(f"{self.tag}wsig{self.n}", self.sig_size)
        self.wrap_calls.append(dict(bufs=[(BT.data, data)], encrypt=True, sealed=sealed, sig=sig, winrm=True))
        return types.SimpleNamespace(header=sig, data=sealed, padding_length=0)

    def unwrap_winrm(self, header, data):
        self.unwrap_calls += 1
        raise SealError("signature verification failed")

    def wrap_iov(self, iov, encrypt=True, qop=None):
        if not self.iov:
            raise spnego.exceptions.FeatureMissingError(spnego.exceptions.NegotiateOptions.wrapping_iov) if hasattr(spnego.exceptions, "NegotiateOptions") else NotImplementedError("IOV is not available")
        bufs = [_norm(b) for b in iov]
        self.n += 1
        data = [d for t, d in bufs if t == BT.data]
        assert len(data) == 1
        sealed = self.c.blob_of_len(f"{self.tag}sealed{self.n}", V.blen(data[0]))
        sig = self.c.bytes(f"{self.tag}wsig{self.n}", self.sig_size)
        self.wrap_calls.append(dict(bufs=bufs, encrypt=encrypt, sealed=sealed, sig=sig))
        out = []
        for t, d in bufs:
            if t == BT.data:
                out.append(types.SimpleNamespace(type=t, data=sealed))
            elif t == BT.header:
                out.append(types.SimpleNamespace(type=t, data=sig))
            else:
                out.append(types.SimpleNamespace(type=t, data=d))
        return types.SimpleNamespace(buffers=tuple(out), encrypted=encrypt)

    def unwrap_iov(self, iov):
        if not self.iov:
            raise NotImplementedError("IOV is not available")
        self.unwrap_calls += 1
        bufs = [_norm(b) for b in iov]
        data = [d for t, d in bufs if t == BT.data]
        sigs = [d for t, d in bufs if t == BT.header]
        signed = [d for t, d in bufs if t == BT.sign_only]
        if len(data) != 1 or len(sigs) != 1:
            raise SealError("malformed IOV")
        for rec in self.sealed:
            conds = [seq_eq(data[0], rec["sealed"]), seq_eq(sigs[0], rec["sig"])]
            if signed:
                # sign_only buffers are covered by the signature, in order: header then trailer
                conds.append(len(signed) == 2 and all_of([seq_eq(signed[0], rec["header"]), seq_eq(signed[1], rec["trailer"])]))
            if truth(all_of([x if isinstance(x, (bool, V.SymBool)) else bool(x) for x in conds])):
                out = []
                for t, d in bufs:
                    out.append(types.SimpleNamespace(type=t, data=rec["plain"] if t == BT.data else d))
                return types.SimpleNamespace(buffers=tuple(out), encrypted=True)
        raise SealError("signature verification failed")


def provider(ctx, c=None, extra_stubs=()):
    """the repository's AuthenticationProvider on top of the ideal context: its own __init__ runs with spnego.client replaced, so that
    attributes a later version adds are initialised the way the code initialises them.  Installs the harness's stubs (once per run); further
    providers in the same run (a second connection) reuse the installed stub, which hands out the contexts in the order they were queued."""
    import spnego

    c = c or ctx.c
    queue = c.__dict__.setdefault("_secctx_queue", None)
    if queue is None:
        queue = c.__dict__["_secctx_queue"] = []

        def client(*a, **k):
            nxt = queue.pop(0)
            nxt.client_args = (a, k)
            return nxt

        c.stubs([(spnego.client, client)] + list(extra_stubs))
    queue.append(ctx)
    return c.call(_auth.AuthenticationProvider, "user", "password", "dc01.domain.test", "negotiate")

"""Independent reference encoders / decoders written from the specifications (X.690, RFC 5652, MS-DTYP, MS-GKDI,
C706/MS-RPCE NDR64).  None of this imports code from the repository under test.  Everything here works on plain
Python values *and* on the symbolic proxies (it only uses operators, comparisons and to_bytes)."""
from __future__ import annotations


def _b(items):
    from symex import values as V

    return V.SymBytes(list(items)).norm()


def cat(*parts):
    from symex import values as V

    items = []
    for p in parts:
        items.extend(V.seq_items(p))
    return V.SymBytes(items).norm()


# ------------------------------------------------------------------------------------------------ X.690 DER


def der_len(n: int) -> bytes:
    """definite length octets, minimal (X.690 8.1.3 + 10.1)"""
    if n < 128:
        return bytes([n])
    k = 1
    while n >= (1 << (8 * k)):
        k += 1
    return bytes([0x80 | k]) + n.to_bytes(k, "big")


def base128(n):
    """base-128 big-endian, continuation bit on all but the last octet, no leading 0x80 (X.690 8.1.2.4 / 8.19)"""
    k = 1
    while n >= (1 << (7 * k)):
        k += 1
    out = []
    for i in range(k - 1, -1, -1):
        d = (n >> (7 * i)) & 0x7F
        out.append(d | (0x80 if i else 0))
    return _b(out)


def der_ident(tag_class, constructed, number):
    """identifier octets (X.690 8.1.2): low-tag form below 31, high-tag-number form from 31 up"""
    from vlib.api import ite

    first = (tag_class * 64) + ite(constructed, 32, 0)
    if number < 31:
        return _b([first + number])
    return cat(_b([first + 31]), base128(number))


def der_tlv(tag_class, constructed, number, content):
    return cat(der_ident(tag_class, constructed, number), der_len(len(content)), content)


def der_int_content(v):
    """two's complement, minimal number of octets (X.690 8.3)"""
    n = 1
    while not ((v >= -(1 << (8 * n - 1))) and (v < (1 << (8 * n - 1)))):
        n += 1
    return v.to_bytes(n, "big", signed=True)


def der_oid_content(arcs):
    """X.690 8.19: first sub-identifier = 40*arc0 + arc1"""
    out = [base128(40 * arcs[0] + arcs[1])]
    for a in arcs[2:]:
        out.append(base128(a))
    return cat(*out)


class DerError(Exception):
    pass


def strict_der_parse(data: bytes, depth=0):
    """Strict DER reader for *concrete* bytes: returns a list of (class, constructed, number, content|children).
    Rejects non-minimal lengths, indefinite lengths, non-minimal high tag numbers, trailing garbage inside TLVs."""
    out = []
    i = 0
    n = len(data)
    while i < n:
        b0 = data[i]
        i += 1
        cls, cons, num = b0 >> 6, bool(b0 & 0x20), b0 & 0x1F
        if num == 31:
            num = 0
            first = True
            while True:
                if i >= n:
                    raise DerError("truncated tag")
                c = data[i]
                i += 1
                if first and c == 0x80:
                    raise DerError("non-minimal high tag")
                first = False
                num = (num << 7) | (c & 0x7F)
                if not c & 0x80:
                    break
            if num < 31:
                raise DerError("high-tag form used for small tag")
        if i >= n:
            raise DerError("truncated length")
        l0 = data[i]
        i += 1
        if l0 < 0x80:
            ln = l0
        elif l0 == 0x80:
            raise DerError("indefinite length")
        else:
            k = l0 & 0x7F
            if i + k > n:
                raise DerError("truncated length octets")
            ln = int.from_bytes(data[i : i + k], "big")
            if data[i] == 0 or ln < 128:
                raise DerError("non-minimal length")
            i += k
        if i + ln > n:
            raise DerError("content overruns")
        content = data[i : i + ln]
        i += ln
        out.append((cls, cons, num, strict_der_parse(content, depth + 1) if cons else bytes(content)))
    return out


def der_oid_decode(content: bytes):
    if not content or content[-1] & 0x80:
        raise DerError("bad oid")
    subs, cur, first = [], 0, True
    for c in content:
        if first and c == 0x80:
            raise DerError("non-minimal sub-identifier")
        first = False
        cur = (cur << 7) | (c & 0x7F)
        if not c & 0x80:
            subs.append(cur)
            cur, first = 0, True
    a0 = min(subs[0] // 40, 2)
    return [a0, subs[0] - 40 * a0] + subs[1:]


# ------------------------------------------------------------------------------------------------ MS-DTYP


def ref_sid(rev, authority, subs):
    """MS-DTYP 2.4.2.2 SID packet: Revision(1) SubAuthorityCount(1) IdentifierAuthority(6, big endian) SubAuthority(4 LE each)"""
    return cat(_b([rev, len(subs)]), authority.to_bytes(6, "big"), *[s.to_bytes(4, "little") for s in subs])


# ------------------------------------------------------------------------------------------------ NDR64 helpers


def le(v, n, signed=False):
    return v.to_bytes(n, "little", signed=signed)


def pad_to(n, align):
    return b"\x00" * (-n % align)


# ------------------------------------------------------------------------------------------------ C706 towers / NDR64 ept_map


def ref_floor(proto, lhs, rhs):
    """C706 appendix L: LHS byte count (2, LE, counts the protocol id octet), protocol id, LHS data, RHS byte count (2, LE), RHS data"""
    return cat(le(len(lhs) + 1, 2), _b([proto]), lhs, le(len(rhs), 2), rhs)


def ref_tower(floors):
    return cat(le(len(floors), 2), *floors)


def ref_ept_map_result(entry_handle, towers, status, max_towers=4):
    """NDR64 encoding of ept_map's [out] parameters (MS-RPCE 2.2.1.2.5, C706 14.3): entry_handle (20), num_towers (4),
    conformant-varying array header (max, offset, actual: 8 each), one 8-byte referent per tower, then each tower as a
    deferred pointee aligned to 8: conformance (8), tower_length (4), octets; finally error_status (4) aligned to 4."""
    out = [entry_handle, le(len(towers), 4), le(max_towers, 8), le(0, 8), le(len(towers), 8)]
    pos = 20 + 4 + 24
    for i in range(len(towers)):
        out.append(le(i + 3, 8))
        pos += 8
    for t in towers:
        pad = -pos % 8
        out.append(b"\x00" * pad)
        pos += pad
        out += [le(len(t), 8), le(len(t), 4), t]
        pos += 12 + len(t)
    pad = -pos % 4
    out += [b"\x00" * pad, le(status, 4)]
    return cat(*out)

"""Independent reference encoders / decoders written from the specifications (X.690, RFC 5652, MS-DTYP, MS-GKDI,
C706/MS-RPCE NDR64).  None of this imports code from the repository under test.  Everything here works on plain
Python values *and* on the symbolic proxies (it only uses operators, comparisons and to_bytes)."""
from __future__ import annotations

from symex import values as V


def _b(items):
    from symex import values as V

    return V.SymBytes(list(items)).norm()


def cat(*parts):
    from symex import values as V

    if any(isinstance(p, V.SymBlob) for p in parts):
        segs = []
        for p in parts:
            segs.extend(V.SymBlob.of(p).segs)
        return V.SymBlob(segs).norm()
    items = []
    for p in parts:
        items.extend(V.seq_items(p))
    return V.SymBytes(items).norm()


# ------------------------------------------------------------------------------------------------ X.690 DER


def der_len(n):
    """definite length octets, minimal (X.690 8.1.3 + 10.1); n may be a solver variable"""
    if n < 128:
        return _b([n])
    k = 1
    while n >= (1 << (8 * k)):
        k += 1
    return cat(bytes([0x80 | k]), n.to_bytes(k, "big"))


def base128(n):
    """base-128 big-endian, continuation bit on all but the last octet, no leading 0x80 (X.690 8.1.2.4 / 8.19)"""
    k = 1
    while n >= (1 << (7 * k)):
        k += 1
    out = []
    for i in range(k - 1, -1, -1):
        d = (n >> (7 * i)) & 0x7F
        out.append(d | (0x80 if i else 0))
    return _b(out)


def der_ident(tag_class, constructed, number):
    """identifier octets (X.690 8.1.2): low-tag form below 31, high-tag-number form from 31 up"""
    from vlib.api import ite

    first = (tag_class * 64) + ite(constructed, 32, 0)
    if number < 31:
        return _b([first + number])
    return cat(_b([first + 31]), base128(number))


def der_tlv(tag_class, constructed, number, content):
    from symex import values as V

    return cat(der_ident(tag_class, constructed, number), der_len(V.blen(content)), content)


def der_int_content(v):
    """two's complement, minimal number of octets (X.690 8.3)"""
    n = 1
    while not ((v >= -(1 << (8 * n - 1))) and (v < (1 << (8 * n - 1)))):
        n += 1
    return v.to_bytes(n, "big", signed=True)


def der_oid_content(arcs):
    """X.690 8.19: first sub-identifier = 40*arc0 + arc1"""
    out = [base128(40 * arcs[0] + arcs[1])]
    for a in arcs[2:]:
        out.append(base128(a))
    return cat(*out)


class DerError(Exception):
    pass


def strict_der_parse(data: bytes, depth=0):
    """Strict DER reader for *concrete* bytes: returns a list of (class, constructed, number, content|children).
    Rejects non-minimal lengths, indefinite lengths, non-minimal high tag numbers, trailing garbage inside TLVs."""
    out = []
    i = 0
    n = len(data)
    while i < n:
        b0 = data[i]
        i += 1
        cls, cons, num = b0 >> 6, bool(b0 & 0x20), b0 & 0x1F
        if num == 31:
            num = 0
            first = True
            while True:
                if i >= n:
                    raise DerError("truncated tag")
                c = data[i]
                i += 1
                if first and c == 0x80:
                    raise DerError("non-minimal high tag")
                first = False
                num = (num << 7) | (c & 0x7F)
                if not c & 0x80:
                    break
            if num < 31:
                raise DerError("high-tag form used for small tag")
        if i >= n:
            raise DerError("truncated length")
        l0 = data[i]
        i += 1
        if l0 < 0x80:
            ln = l0
        elif l0 == 0x80:
            raise DerError("indefinite length")
        else:
            k = l0 & 0x7F
            if i + k > n:
                raise DerError("truncated length octets")
            ln = int.from_bytes(data[i : i + k], "big")
            if data[i] == 0 or ln < 128:
                raise DerError("non-minimal length")
            i += k
        if i + ln > n:
            raise DerError("content overruns")
        content = data[i : i + ln]
        i += ln
        out.append((cls, cons, num, strict_der_parse(content, depth + 1) if cons else bytes(content)))
    return out


def der_oid_decode(content: bytes):
    if not content or content[-1] & 0x80:
        raise DerError("bad oid")
    subs, cur, first = [], 0, True
    for c in content:
        if first and c == 0x80:
            raise DerError("non-minimal sub-identifier")
        first = False
        cur = (cur << 7) | (c & 0x7F)
        if not c & 0x80:
            subs.append(cur)
            cur, first = 0, True
    a0 = min(subs[0] // 40, 2)
    return [a0, subs[0] - 40 * a0] + subs[1:]


# ------------------------------------------------------------------------------------------------ MS-DTYP


def ref_sid(rev, authority, subs):
    """MS-DTYP 2.4.2.2 SID packet: Revision(1) SubAuthorityCount(1) IdentifierAuthority(6, big endian) SubAuthority(4 LE each)"""
    return cat(_b([rev, len(subs)]), authority.to_bytes(6, "big"), *[s.to_bytes(4, "little") for s in subs])


# ------------------------------------------------------------------------------------------------ NDR64 helpers


def le(v, n, signed=False):
    return v.to_bytes(n, "little", signed=signed)


def pad_to(n, align):
    return b"\x00" * (-n % align)


# ------------------------------------------------------------------------------------------------ C706 towers / NDR64 ept_map


def ref_floor(proto, lhs, rhs):
    """C706 appendix L: LHS byte count (2, LE, counts the protocol id octet), protocol id, LHS data, RHS byte count (2, LE), RHS data"""
    return cat(le(len(lhs) + 1, 2), _b([proto]), lhs, le(len(rhs), 2), rhs)


def ref_tower(floors):
    return cat(le(len(floors), 2), *floors)


def ref_ept_map_result(entry_handle, towers, status, max_towers=4):
    """NDR64 encoding of ept_map's [out] parameters (MS-RPCE 2.2.1.2.5, C706 14.3): entry_handle (20), num_towers (4),
    conformant-varying array header (max, offset, actual: 8 each), one 8-byte referent per tower, then each tower as a
    deferred pointee aligned to 8: conformance (8), tower_length (4), octets; finally error_status (4) aligned to 4."""
    out = [entry_handle, le(len(towers), 4), le(max_towers, 8), le(0, 8), le(len(towers), 8)]
    pos = 20 + 4 + 24
    for i in range(len(towers)):
        out.append(le(i + 3, 8))
        pos += 8
    for t in towers:
        pad = -pos % 8
        out.append(b"\x00" * pad)
        pos += pad
        out += [le(len(t), 8), le(len(t), 4), t]
        pos += 12 + len(t)
    pad = -pos % 4
    out += [b"\x00" * pad, le(status, 4)]
    return cat(*out)


# ------------------------------------------------------------------------------------------------ MS-GKDI 2.2


def u16z(s: str) -> bytes:
    """null-terminated UTF-16-LE"""
    return (s + "\0").encode("utf-16-le")


def ref_kdf_parameters(hash_name: str):
    name = u16z(hash_name)
    return cat(bytes.fromhex("0000000001000000"), le(len(name), 4), bytes(4), name)


def ref_ffcdh_parameters(key_length, p, g):
    return cat(le(12 + 2 * key_length, 4), b"DHPM", le(key_length, 4), p.to_bytes(key_length, "big"), g.to_bytes(key_length, "big"))


def ref_ffcdh_key(key_length, p, g, y):
    return cat(b"DHPB", le(key_length, 4), p.to_bytes(key_length, "big"), g.to_bytes(key_length, "big"), y.to_bytes(key_length, "big"))


def ref_ecdh_key(curve, key_length, x, y):
    magic = {"P256": b"ECK1", "P384": b"ECK3", "P521": b"ECK5"}[curve]
    return cat(magic, le(key_length, 4), x.to_bytes(key_length, "big"), y.to_bytes(key_length, "big"))


def ref_group_key_envelope(version, flags, l0, l1, l2, rkid_le, kdf_alg, kdf_par, sec_alg, sec_par, priv_len, pub_len, domain, forest, l1_key, l2_key):
    ka, sa, dn, fn = u16z(kdf_alg), u16z(sec_alg), u16z(domain), u16z(forest)
    return cat(le(version, 4), b"KDSK", le(flags, 4), le(l0, 4), le(l1, 4), le(l2, 4), rkid_le, le(len(ka), 4), le(len(kdf_par), 4), le(len(sa), 4), le(len(sec_par), 4),
               le(priv_len, 4), le(pub_len, 4), le(len(l1_key), 4), le(len(l2_key), 4), le(len(dn), 4), le(len(fn), 4), ka, kdf_par, sa, sec_par, dn, fn, l1_key, l2_key)


def ref_key_identifier(version, flags, l0, l1, l2, rkid_le, key_info, domain, forest):
    dn, fn = u16z(domain), u16z(forest)
    return cat(le(version, 4), b"KDSK", le(flags, 4), le(l0, 4), le(l1, 4), le(l2, 4), rkid_le, le(len(key_info), 4), le(len(dn), 4), le(len(fn), 4), key_info, dn, fn)


def ref_getkey_request(target_sd, rkid_le, l0, l1, l2, referent=0x00020000):
    """NDR64 stub of GetKey (MS-GKDI 3.1.4.1): ULONG cbTargetSD; [size_is] char* (ref pointer: conformant array inline: 8-byte max count, data);
    [unique] GUID* (8-byte referent or 0, then the GUID); three LONGs."""
    n = len(target_sd)
    out = [le(n, 4), bytes(4), le(n, 8), target_sd, bytes(-n % 8)]
    if rkid_le is None:
        out.append(bytes(8))
    else:
        out += [le(referent, 8), rkid_le]
    out += [le(l0, 4, True), le(l1, 4, True), le(l2, 4, True)]
    return cat(*out)


def ref_getkey_response(envelope, hresult=0, referent=0x00020000):
    """[out] unsigned long* pcbOut; [out][size_is(,*pcbOut)] byte** ppbOut; HRESULT"""
    n = len(envelope)
    return cat(le(n, 4), bytes(4), le(referent, 8), le(n, 8), envelope, bytes(-n % 4), le(hresult, 4))


# ------------------------------------------------------------------------------------------------ RFC 5652 / DPAPI-NG blob template


def der_oid(dotted: str):
    content = der_oid_content([int(x) for x in dotted.split(".")])
    return cat(bytes([6]), der_len(V.blen(content)), content)


def der_seq(*parts):
    body = cat(*parts)
    return cat(bytes([0x30]), der_len(V.blen(body)), body)


def der_set(*parts):
    body = cat(*parts)
    return cat(bytes([0x31]), der_len(V.blen(body)), body)


def der_octets(b):
    return cat(bytes([0x04]), der_len(V.blen(b)), b)


def der_utf8(s: str):
    b = s.encode("utf-8")
    return cat(bytes([0x0C]), der_len(V.blen(b)), b)


def der_ctx(n, constructed, body):
    return cat(bytes([0x80 | (0x20 if constructed else 0) | n]), der_len(V.blen(body)), body)


def ref_gcm_parameters(nonce):
    """RFC 5084 GCMParameters ::= SEQUENCE { aes-nonce OCTET STRING, aes-ICVlen INTEGER DEFAULT 12 } with ICVlen 16 as Windows emits"""
    return der_seq(der_octets(nonce), bytes([0x02, 0x01, 0x10]))


def ref_protection_descriptor(sid: str):
    return der_seq(der_oid("1.3.6.1.4.1.311.74.1.1"), der_seq(der_seq(der_seq(der_utf8("SID"), der_utf8(sid)))))


def ref_dpapi_ng_blob(key_identifier, sid, enc_cek, enc_content, content_params, in_envelope=True, cek_alg="2.16.840.1.101.3.4.1.45", content_alg="2.16.840.1.101.3.4.1.46", cek_params=None):
    """the layout NCryptProtectSecret produces (calibrated against the 16 Windows blobs in tests/data)"""
    kekid = der_seq(der_octets(key_identifier), der_seq(der_oid("1.3.6.1.4.1.311.74.1"), ref_protection_descriptor(sid)))
    kekri = der_ctx(2, True, cat(bytes([2, 1, 4]), kekid, der_seq(der_oid(cek_alg), cek_params if cek_params is not None else b""), der_octets(enc_cek)))
    eci_parts = [der_oid("1.2.840.113549.1.7.1"), der_seq(der_oid(content_alg), content_params if content_params is not None else b"")]
    if in_envelope and V.blen(enc_content) > 0:
        eci_parts.append(der_ctx(0, False, enc_content))
    enveloped = der_seq(bytes([2, 1, 2]), der_set(kekri), der_seq(*eci_parts))
    ci = der_seq(der_oid("1.2.840.113549.1.7.3"), der_ctx(0, True, enveloped))
    return cat(ci, b"" if in_envelope else enc_content)


# ------------------------------------------------------------------------------------------------ RFC 5114 section 2.3 (2048-bit MODP group with 256-bit prime order subgroup)
# transcribed from the RFC; the transcription is self-checking: g has order q in Z_p* (g^q = 1 mod p, q | p-1), which a typo would destroy
RFC5114_2_3_P = int(
    "87A8E61DB4B6663CFFBBD19C651959998CEEF608660DD0F25D2CEED4435E3B00E00DF8F1D61957D4FAF7DF4561B2AA3016C3D91134096FAA3BF4296D830E9A7C"
    "209E0C6497517ABD5A8A9D306BCF67ED91F9E6725B4758C022E0B1EF4275BF7B6C5BFC11D45F9088B941F54EB1E59BB8BC39A0BF12307F5C4FDB70C581B23F76"
    "B63ACAE1CAA6B7902D52526735488A0EF13C6D9A51BFA4AB3AD8347796524D8EF6A167B5A41825D967E144E5140564251CCACB83E6B486F6B3CA3F7971506026"
    "C0B857F689962856DED4010ABD0BE621C3A3960A54E710C375F26375D7014103A4B54330C198AF126116D2276E11715F693877FAD7EF09CADB094AE91E1A1597", 16)
RFC5114_2_3_G = int(
    "3FB32C9B73134D0B2E77506660EDBD484CA7B18F21EF205407F4793A1A0BA12510DBC15077BE463FFF4FED4AAC0BB555BE3A6C1B0C6B47B1BC3773BF7E8C6F62"
    "901228F8C28CBB18A55AE31341000A650196F931C77A57F2DDF463E5E9EC144B777DE62AAAB8A8628AC376D282D6ED3864E67982428EBC831D14348F6F2F9193"
    "B5045AF2767164E1DFC967C1FB3F2E55A4BD1BFFE83B9C80D052B985D182EA0ADB2A3B7313D3FE14C8484B1E052588B9B7D2BBD2DF016199ECD06E1557CD0915"
    "B3353BBB64E0EC377FD028370DF92B52C7891428CDC67EB6184B523D1DB246C32F63078490F00EF8D647D148D47954515E2327CFEF98C582664B4C0F6CC41659", 16)
RFC5114_2_3_Q = int("8CF83642A709A097B447997640129DA299B1A47D1EB3750BA308B0FE64F5FBD3", 16)
assert pow(RFC5114_2_3_G, RFC5114_2_3_Q, RFC5114_2_3_P) == 1 and (RFC5114_2_3_P - 1) % RFC5114_2_3_Q == 0 and RFC5114_2_3_P.bit_length() == 2048


def utf8_of(cp):
    """RFC 3629 encoding of one code point (int or solver variable; forks on the length class); surrogates are the caller's business"""
    if cp < 0x80:
        return _b([cp])
    if cp < 0x800:
        return _b([0xC0 | (cp >> 6), 0x80 | (cp & 0x3F)])
    if cp < 0x10000:
        return _b([0xE0 | (cp >> 12), 0x80 | ((cp >> 6) & 0x3F), 0x80 | (cp & 0x3F)])
    return _b([0xF0 | (cp >> 18), 0x80 | ((cp >> 12) & 0x3F), 0x80 | ((cp >> 6) & 0x3F), 0x80 | (cp & 0x3F)])

"""C09 - encryption names the group key of the interval containing the current time."""
from __future__ import annotations

import time
import uuid

from dpapi_ng import _client

from symex import values as V
from vlib.api import all_of, harness

META = dict(assumptions=[
    "time.time_ns() is replaced by an arbitrary integer in the stated range",
    "int/int is CPython's correctly rounded true division (modelled in IEEE binary64 via a 130-bit intermediate, see symex/values.py sym_truediv)",
])
P = "C09"
EPOCH = 116444736000000000
B = 360000000000
T_MAX = (1 << 63) - 1  # time_ns() up to year 2262


class ProbeCache:
    """stands in for KeyCache: records the position asked for"""

    def __init__(self):
        self.asked = None

    def _get_key(self, target_sd, root_key_id, l0, l1, l2):
        self.asked = (l0, l1, l2)
        return None


def _kernel(c, model):
    V.FLOAT_MODEL = model
    t = c.int("time_ns", 0, T_MAX)
    c.stubs([(time.time_ns, lambda: t)])
    cache = ProbeCache()
    rk = uuid.UUID(int=7)
    r = c.call(_client._get_protection_gke_from_cache, rk, b"sd", cache)
    l0, l1, l2 = cache.asked
    ft = t // 100 + EPOCH
    c.check(l0 == ft // (1024 * B), "L0 is the interval containing now")
    c.check(l1 == (ft // (32 * B)) % 32, "L1 is the interval containing now")
    c.check(l2 == (ft // B) % 32, "L2 is the interval containing now")
    return r is None


@harness(P, bounds="time.time_ns() any integer in [0, 2^63) (1970-01-01 .. 2262-04-11), every instant incl. every L0/L1/L2 boundary offset; exact float model",
         outside="clock values before 1970 or after 2262", must_reach=("L0 is the interval containing now", "L2 is the interval containing now"))
def kernel_exact(c):
    return _kernel(c, "exact")


@harness(P, bounds="same range; float(a)/float(b) model used only to *generate* counterexample candidates quickly (each is replayed natively); a pass of this "
         "harness alone proves nothing, kernel_exact decides", must_reach=("L0 is the interval containing now", "L2 is the interval containing now"), compare_result=True)
def kernel_candidates(c):
    return _kernel(c, "cheap")

"""C09 - encryption names the group key of the interval containing the current time."""
from __future__ import annotations

import time
import uuid

from dpapi_ng import _client

from symex import values as V
from vlib.api import all_of, harness

META = dict(assumptions=[
    "time.time_ns() is replaced by an arbitrary integer in the stated range",
    "int/int is CPython's correctly rounded true division (modelled in IEEE binary64 via a 130-bit intermediate, see symex/values.py sym_truediv)",
])
P = "C09"
EPOCH = 116444736000000000
B = 360000000000
T_MAX = (1 << 63) - 1  # time_ns() up to year 2262


class ProbeCache(_client.KeyCache):
    """a real (empty) KeyCache that records the position asked for"""

    def __init__(self):
        super().__init__()
        self.asked = None

    def _get_key(self, target_sd, root_key_id, l0, l1, l2):
        self.asked = (l0, l1, l2)
        return None


def _kernel(c, model):
    V.FLOAT_MODEL = model
    t = c.int("time_ns", 0, T_MAX)
    c.stubs([(time.time_ns, lambda: t)])
    cache = ProbeCache()
    rk = uuid.UUID(int=7)
    r = c.call(_client._get_protection_gke_from_cache, rk, b"sd", cache)
    if cache.asked is None:
        # the function answered without asking the cache for a position: nothing to observe here (the propagation harnesses observe the emitted blob);
        # the labels below then stay unreached and the check reports itself inconclusive rather than guessing
        c.check(r is None, "no envelope without a cache lookup")
        return True
    l0, l1, l2 = cache.asked
    ft = t // 100 + EPOCH
    c.check(l0 == ft // (1024 * B), "L0 is the interval containing now")
    c.check(l1 == (ft // (32 * B)) % 32, "L1 is the interval containing now")
    c.check(l2 == (ft // B) % 32, "L2 is the interval containing now")
    return r is None


@harness(P, bounds="time.time_ns() any integer in [0, 2^63) (1970-01-01 .. 2262-04-11), every instant incl. every L0/L1/L2 boundary offset; exact float model",
         outside="clock values before 1970 or after 2262", must_reach=("L0 is the interval containing now", "L2 is the interval containing now"))
def kernel_exact(c):
    return _kernel(c, "exact")


@harness(P, bounds="same range; float(a)/float(b) model used only to *generate* counterexample candidates quickly (each is replayed natively); a pass of this "
         "harness alone proves nothing, kernel_exact decides", must_reach=("L0 is the interval containing now", "L2 is the interval containing now"), compare_result=True)
def kernel_candidates(c):
    return _kernel(c, "cheap")


# ------------------------------------------------------------------------------------------------ propagation into the emitted blob


def _prop_params(tier):
    out = []
    for state in ("root", "seed"):
        for win in ([(361, 9, 4, 2, 2), (361, 10, 0, 2, 2), (362, 0, 0, 2, 2)] if tier == "quick" else
                    [(361, 9, 4, 2, 2), (361, 10, 0, 2, 2), (362, 0, 0, 2, 2), (270, 31, 31, 5, 5), (564, 0, 1, 3, 3), (361, 9, 0, 2, 5 * B)]):
            out.append(dict(state=state, win=win))
    return out


@harness(P, params=_prop_params, max_steps=1500000,
         bounds="ncrypt_protect_secret served from the cache, clock symbolic inside windows around L2 / L1 / L0 boundaries (+- 2 ticks; thorough: more epochs and a 50 h window); cache "
         "state: a loaded root key, or a previously retrieved seed-key envelope for the same L0 at a solver-chosen position at or after the clock's (same or next L1, any L2); the key "
         "identifier parsed back from the emitted blob must name the interval containing the clock", outside="clock instants outside the windows (the kernel harness covers every instant)",
         must_reach=("blob names the interval containing now",))
def propagation(c, state, win):
    import dpapi_ng
    from dpapi_ng import _blob, _gkdi

    from . import e2e
    from vlib.api import any_of

    lo, hi = e2e.window(*win)
    w = e2e.new_world(c, lo, hi)
    t = w.t_ns
    ft = t // 100 + EPOCH
    l0, l1, l2 = ft // (1024 * B), (ft // (32 * B)) % 32, (ft // B) % 32
    cache = dpapi_ng.KeyCache()
    sid = e2e.SIDS[0]
    if state == "root":
        c.call(cache.load_key, c.bytes("root", 64), e2e.RK)
    else:
        # an envelope obtained earlier over RPC (e.g. while unprotecting a blob written by a host whose clock is ahead)
        l0c = c.concretize(l0)
        e1 = c.int("env_l1", 0, 31)
        e2 = c.int("env_l2", 0, 31)
        c.assume(all_of([any_of([e1 == l1, e1 == l1 + 1]), any_of([e1 > l1, e2 >= l2])]))
        sd = _blob.SIDDescriptor(sid).get_target_sd()
        env = _gkdi.GroupKeyEnvelope(1, 2, l0c, e1, e2, e2e.RK, "SP800_108_CTR_HMAC", _gkdi.KDFParameters("SHA512").pack(), "DH", b"", 512, 2048, "d.t", "f.t",
                                     c.bytes("l1k", 64), c.bytes("l2k", 64))
        c.call(cache._store_key, sd, env)
    blob = c.call(dpapi_ng.ncrypt_protect_secret, c.bytes("pt", 3), sid, root_key_identifier=e2e.RK, cache=cache)
    k = c.call(_blob.DPAPINGBlob.unpack, blob).key_identifier
    c.check(all_of([k.l0 == l0, k.l1 == l1, k.l2 == l2]), "blob names the interval containing now")
    return True


@harness(P, per_job=True, params=lambda tier: [dict(win=w_, flavours=f) for w_ in ([(362, 0, 0, 2, 2), (361, 9, 4, 2, 2)] if tier == "quick" else
                                                                               [(362, 0, 0, 2, 2), (361, 9, 4, 2, 2), (361, 10, 0, 2, 2), (270, 31, 31, 3, 3)])
                                               for f in (("sync", "sync"), ("async", "sync"))] +
         [dict(win=w_, flavours=("sync", "async"), stepping=True) for w_ in ([(361, 9, 4, 2, 2)] if tier == "quick" else [(361, 9, 4, 2, 2), (362, 0, 0, 2, 2), (361, 10, 0, 2, 2)])],
         max_steps=3000000,
         bounds="a history of two protect calls on one KeyCache holding the root key, with a clock that ADVANCES: every read of time.time_ns() returns the next of four solver-chosen "
         "non-decreasing instants inside a window of +-2 ticks around an L0 / L2 (thorough: also L1) boundary (jobs with stepping=True: the four instants are in ANY order - a "
         "clock that is stepped back between or during calls). Each emitted blob must name the interval containing one of the "
         "instants read during its own call (so neither a remembered earlier answer nor a mix of two reads may leak into the key identifier)",
         outside="more than two calls; windows elsewhere (kernel_exact covers every single instant)", must_reach=("history: each blob names an interval containing an instant of its own call",))
def propagation_history(c, win, flavours, stepping=False):
    import dpapi_ng
    from dpapi_ng import _blob

    from . import e2e
    from vlib.api import any_of

    lo, hi = e2e.window(*win)
    times = [c.int(f"t{i}", lo, hi) for i in range(4)]
    if not stepping:
        c.assume(all_of([times[i] <= times[i + 1] for i in range(3)]))
    state = {"i": 0, "reads": []}

    def clock():
        t = times[min(state["i"], 3)]
        state["i"] += 1
        state["reads"].append(t)
        return t

    w = e2e.new_world(c, extra=[(time.time_ns, clock)])
    cache = dpapi_ng.KeyCache()
    sid = e2e.SIDS[0]
    c.call(cache.load_key, c.bytes("root", 64), e2e.RK)
    oks = []
    for n, fl in enumerate(flavours):
        state["reads"] = []
        if fl == "sync":
            blob = c.call(dpapi_ng.ncrypt_protect_secret, c.bytes(f"pt{n}", 3), sid, root_key_identifier=e2e.RK, cache=cache)
        else:
            blob = c.call_async(dpapi_ng.async_ncrypt_protect_secret, c.bytes(f"pt{n}", 3), sid, root_key_identifier=e2e.RK, cache=cache)
        k = c.call(_blob.DPAPINGBlob.unpack, blob).key_identifier
        c.check(len(state["reads"]) >= 1, "history: the call read the clock")
        alts = []
        for t in state["reads"]:
            ft = t // 100 + EPOCH
            alts.append(all_of([k.l0 == ft // (1024 * B), k.l1 == (ft // (32 * B)) % 32, k.l2 == (ft // B) % 32]))
        oks.append(any_of(alts))
    c.check(all_of(oks), "history: each blob names an interval containing an instant of its own call")
    return True

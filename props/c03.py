"""C03 - KEK derivation agrees on both sides and uses the Windows construction."""
from __future__ import annotations

import math
import uuid

from cryptography.hazmat.primitives import hashes
from cryptography.hazmat.primitives.kdf.concatkdf import ConcatKDFHash
from cryptography.hazmat.primitives.kdf.kbkdf import KBKDFHMAC, CounterLocation, Mode
from dpapi_ng import _blob, _crypto, _gkdi

from symex import values as V
from vlib.api import all_of, harness, truth

from . import e2e, refs
from .world import ScalarOutOfRange  # noqa
from .world import Algebra, World, lookup, seq_eq

META = dict(assumptions=[
    "KBKDFHMAC / ConcatKDFHash are replaced at their constructors: every keyword argument the repository passes is captured and asserted, derive() is an ideal function of "
    "(all constructor arguments, key material). That `cryptography`'s primitives are bit-for-bit the SP800-108 / SP800-56A functions Windows uses cannot be put through a solver "
    "and is NOT decided here (second half of the property's second sentence).",
    "Diffie-Hellman algebra stub: group elements are identified by (generator, multiset of exponents); only commutativity is assumed",
    "the seed-holding side's view of a public-key envelope is produced by the harness playing the DC as MS-GKDI 3.1.4.1.2 describes (private key = KDF(L2 seed, label, "
    "algorithm name, length), public key = g^x / x*G)",
])
P = "C03"
LABEL = "KDS service\0".encode("utf-16-le")
PUBCTX = "KDS public key\0".encode("utf-16-le")
OTHERINFO = "SHA512\0".encode("utf-16-le") + PUBCTX + LABEL
HASHES = {"SHA1": hashes.SHA1, "SHA256": hashes.SHA256, "SHA384": hashes.SHA384, "SHA512": hashes.SHA512}


class Capture:
    """replaces the two KDF classes; derive() is an ideal function of every constructor argument and the key material"""

    def __init__(self, c, w):
        self.c, self.w, self.calls, self.records = c, w, [], {}
        cap = self

        class FakeKBKDFHMAC:
            def __init__(self, algorithm, mode, length, rlen, llen, location, label, context, fixed, backend=None, *, break_location=None):
                self.kw = dict(kind="kbkdf", algorithm=algorithm.name, mode=mode, length=length, rlen=rlen, llen=llen, location=location, label=label, context=context, fixed=fixed,
                               break_location=break_location)

            def derive(self, key_material):
                return cap.derive(self.kw, key_material)

        class FakeConcatKDFHash:
            def __init__(self, algorithm, length, otherinfo, backend=None):
                self.kw = dict(kind="concat", algorithm=algorithm.name, length=length, otherinfo=otherinfo)

            def derive(self, key_material):
                return cap.derive(self.kw, key_material)

        self.kb, self.ck = FakeKBKDFHMAC, FakeConcatKDFHash

    def derive(self, kw, key):
        rec = dict(kw, key=key)
        self.calls.append(rec)
        rec["out"] = self._derive(kw, key)
        return rec["out"]

    def _derive(self, kw, key):
        self.c.count("kdf")
        length = self.c.concretize(kw["length"])
        sig = (kw["kind"], kw["algorithm"], length, repr(kw.get("mode")), kw.get("rlen"), kw.get("llen"), repr(kw.get("location")), bytes(kw["label"]) if kw.get("label") is not None and
               not isinstance(kw.get("label"), V.SymSeq) else None, repr(kw.get("fixed")))
        recs = self.records.setdefault(sig, [])
        parts = (key, kw.get("context") if kw["kind"] == "kbkdf" else kw.get("otherinfo"))
        hit = lookup(recs, parts, self.w)
        if hit is not None:
            return hit[1]
        out = self.w.fresh("kdfout", length)
        recs.append((parts, out))
        return out

    def stubs(self):
        return [(KBKDFHMAC, self.kb), (ConcatKDFHash, self.ck)]


def _setup(c):
    w = World(c)
    w.algebra = Algebra(w)
    cap = Capture(c, w)
    import os

    c.stubs(cap.stubs() + w.algebra.stubs() + [(os.urandom, w.urandom)])
    return w, cap


def _kb_ok(call, alg, key, context, length):
    return all_of([call["kind"] == "kbkdf", call["algorithm"] == alg.lower(), call["mode"] is Mode.CounterMode, call["rlen"] == 4, call["llen"] == 4,
                   call["location"] is CounterLocation.BeforeFixed, call["fixed"] is None, call["break_location"] is None, bytes(call["label"]) == LABEL,
                   seq_eq(call["context"], context), call["length"] == length, seq_eq(call["key"], key)])


def _ck_ok(call, alg, key):
    digest = {"sha256": 32, "sha384": 48, "sha512": 64}[alg]
    return all_of([call["kind"] == "concat", call["algorithm"] == alg, call["length"] == digest, bytes(call["otherinfo"]) == OTHERINFO, seq_eq(call["key"], key)])


def _env(hash_name, secret_alg, secret_params, priv_len, pub_len, flags, l2key):
    return _gkdi.GroupKeyEnvelope(1, flags, 361, 5, 7, uuid.UUID(int=9), "SP800_108_CTR_HMAC", _gkdi.KDFParameters(hash_name).pack(), secret_alg, secret_params, priv_len, pub_len,
                                  "d.t", "f.t", b"", l2key)


@harness(P, per_job=True, params=[dict(hash_name=h) for h in HASHES], bounds="nonce mode, 4 hashes: 64 symbolic L2-seed bytes, 32-byte nonce from the RNG", must_reach=("nonce: both sides agree", "nonce: KDF parameters"))
def nonce_mode(c, hash_name):
    w, cap = _setup(c)
    seed = c.bytes("l2seed", 64)
    env = _env(hash_name, "DH", b"", 512, 2048, 2, seed)
    kek1, kid = c.call(env.new_kek)
    n1 = len(cap.calls)
    kek2 = c.call(env.get_kek, kid)
    c.check(all_of([seq_eq(kek1, kek2), len(kek1) == 32]), "nonce: both sides agree")
    nonce = [d for d in w.draws if d[1] == 32]
    c.check(all_of([n1 == 1, len(cap.calls) == 2, len(nonce) == 1 and seq_eq(kid.key_info, nonce[0][2]), not kid.is_public_key] +
                   [_kb_ok(x, hash_name, seed, kid.key_info, 32) for x in cap.calls]), "nonce: KDF parameters")
    c.check(all_of([kid.l0 == 361, kid.l1 == 5, kid.l2 == 7, kid.version == 1, kid.flags == 2, kid.domain_name == "d.t", kid.forest_name == "f.t"]), "key identifier mirrors the envelope")
    return True


def _dh_params(tier):
    out = []
    for h in (["SHA512", "SHA1"] if tier == "quick" else HASHES):
        for kl, priv in ([(1, 8), (2, 16), (256, 512)] if tier == "quick" else [(1, 8), (2, 9), (3, 24), (4, 32), (32, 256), (256, 512)]):
            out.append(dict(hash_name=h, kl=kl, priv_len=priv, pkl=kl))
    # the group parameters of the group key may be written with a wider key_length than the public key blob (same p and g, more leading zero octets)
    out.append(dict(hash_name="SHA256", kl=2, priv_len=16, pkl=6))
    if tier != "quick":
        out += [dict(hash_name="SHA384", kl=1, priv_len=8, pkl=4), dict(hash_name="SHA512", kl=4, priv_len=32, pkl=8)]
    return out


@harness(P, per_job=True, params=_dh_params, max_steps=400000,
         bounds="DH: field order p >= 5 and generator 1 < g < p-1 symbolic below 2^(8*key_length) for key_length in {1,2,256} quick / {1,2,3,4,32,256} thorough (small groups make values with leading zero "
         "bytes the majority; at key_length 256 p and g are the RFC 5114 group), private key length 8..512 bits incl. a non-multiple of 8, L2 seed and ephemeral key symbolic; the group parameters carry the same or a wider key_length than the public key",
         outside="other key lengths", must_reach=("dh: both sides agree", "dh: KDF parameters and fixed-width shared secret", "dh: public values are fixed width"))
def dh_mode(c, hash_name, kl, priv_len, pkl):
    w, cap = _setup(c)
    seed = c.bytes("l2seed", 64)
    if kl == 256:
        prm = _gkdi.FFCDHParameters.unpack(__import__("dpapi_ng").KeyCache().__class__.load_key.__defaults__ and _rfc5114())
        p, g = prm.field_order, prm.generator
    else:
        top = (1 << (8 * kl)) - 1
        p, g = c.int("p", 5, top), c.int("g", 2, top)
        c.assume(g < p - 1)  # a group a DC can hand out: generator and derived values are not the degenerate elements 0, 1, p-1 (which compute_kek refuses)
    sec_params = c.call(_gkdi.FFCDHParameters(pkl, p, g).pack)
    nbytes = math.ceil(priv_len / 8)
    # --- the DC's side (MS-GKDI 3.1.4.1.2), on the same ideal primitives
    x_bytes = cap.derive(dict(kind="kbkdf", algorithm=hash_name.lower(), mode=Mode.CounterMode, length=nbytes, rlen=4, llen=4, location=CounterLocation.BeforeFixed, label=LABEL,
                              context="DH\0".encode("utf-16-le"), fixed=None, break_location=None), seed)
    x = V.int_from_bytes(x_bytes, "big") if c.symbolic else int.from_bytes(x_bytes, "big")
    y = w.algebra.pow(g, x, p)
    pub = refs.ref_ffcdh_key(kl, p, g, y)
    cap.calls.clear()
    env_pub = _env(hash_name, "DH", sec_params, priv_len, 8 * kl, 3, pub)
    env_seed = _env(hash_name, "DH", sec_params, priv_len, 8 * kl, 2, seed)
    kek1, kid = c.call(env_pub.new_kek)
    enc_calls = list(cap.calls)
    cap.calls.clear()
    kek2 = c.call(env_seed.get_kek, kid)
    dec_calls = list(cap.calls)
    c.check(all_of([seq_eq(kek1, kek2), len(kek1) == 32]), "dh: both sides agree")
    eph = [d for d in w.draws if d[0] == "urandom"]
    c.check(all_of([len(eph) == 1, len(eph[0][2]) == nbytes, kid.is_public_key, len(kid.key_info) == 8 + 3 * kl]), "dh: ephemeral key of ceil(private_key_length/8) random bytes")
    # encrypting side: ConcatKDF(SHA256, shared secret as key_length octets) then KBKDF(hash, ., label, 'KDS public key', 32)
    conds = [len(enc_calls) == 2, len(dec_calls) == 3]
    if all(conds):
        ss = enc_calls[0]["key"]
        # the octets fed to the KDF are the shared secret Z = y^e mod p as an unsigned big-endian number of exactly key_length octets (SP800-56A)
        e_int = V.int_from_bytes(eph[0][2], "big") if c.symbolic else int.from_bytes(eph[0][2], "big")
        z = w.algebra.pow(y, e_int, p)
        conds.append(seq_eq(ss, z.to_bytes(kl, "big")))
        conds += [len(ss) == kl, _ck_ok(enc_calls[0], "sha256", ss), _kb_ok(enc_calls[1], hash_name, cap_out(cap, enc_calls[0]), PUBCTX, 32)]
        conds += [_kb_ok(dec_calls[0], hash_name, seed, "DH\0".encode("utf-16-le"), nbytes), len(dec_calls[1]["key"]) == kl, _ck_ok(dec_calls[1], "sha256", dec_calls[1]["key"]),
                  seq_eq(dec_calls[1]["key"], ss), _kb_ok(dec_calls[2], hash_name, cap_out(cap, dec_calls[1]), PUBCTX, 32)]
    c.check(all_of([x if isinstance(x, (bool, V.SymBool)) else bool(x) for x in conds]), "dh: KDF parameters and fixed-width shared secret")
    k = c.call(_gkdi.FFCDHKey.unpack, kid.key_info)
    c.check(all_of([k.key_length == kl, k.field_order == p, k.generator == g]), "dh: public values are fixed width")
    return True


def cap_out(cap, call):
    """the output the capture stub returned for a recorded call"""
    return call["out"]


def _rfc5114():
    import dpapi_ng

    cache = dpapi_ng.KeyCache()
    cache.load_key(b"", uuid.UUID(int=1))
    return cache._root_keys[uuid.UUID(int=1)].secret_parameters


def _ec_params(tier):
    return [dict(hash_name=h, curve=cv) for h in (["SHA256", "SHA384"] if tier == "quick" else HASHES) for cv in ("P256", "P384")]


@harness(P, per_job=True, params=_ec_params, max_steps=400000, raises=(ScalarOutOfRange,),
         bounds="ECDH P256 / P384: peer point and ephemeral point are algebra elements with symbolic coordinates in [0, 2^bits) (every leading-zero pattern), L2 seed and ephemeral "
         "private key symbolic (an ephemeral scalar outside [1, n-1] makes the EC library raise ValueError: allowed)", outside="P521", must_reach=("ecdh: both sides agree", "ecdh: KDF parameters and fixed-width shared secret", "ecdh: coordinates are fixed width"))
def ecdh_mode(c, hash_name, curve):
    w, cap = _setup(c)
    seed = c.bytes("l2seed", 64)
    bits = {"P256": 256, "P384": 384}[curve]
    kl = bits // 8
    alg_name = f"ECDH_{curve}"
    cname = {"P256": "secp256r1", "P384": "secp384r1"}[curve]
    chash = {"P256": "sha256", "P384": "sha384"}[curve]
    ctx = (alg_name + "\0").encode("utf-16-le")
    x_bytes = cap.derive(dict(kind="kbkdf", algorithm=hash_name.lower(), mode=Mode.CounterMode, length=kl, rlen=4, llen=4, location=CounterLocation.BeforeFixed, label=LABEL,
                              context=ctx, fixed=None, break_location=None), seed)
    x = V.int_from_bytes(x_bytes, "big") if c.symbolic else int.from_bytes(x_bytes, "big")
    c.assume(all_of([x > 0, x < Algebra.CURVE_ORDER[cname]]))
    el = w.algebra._ec_element(cname, ("G", "G"), [x])
    pub = refs.ref_ecdh_key(curve, kl, el["x"], el["y"])
    cap.calls.clear()
    env_pub = _env(hash_name, alg_name, b"", bits, bits, 3, pub)
    env_seed = _env(hash_name, alg_name, b"", bits, bits, 2, seed)
    kek1, kid = c.call(env_pub.new_kek)
    enc_calls = list(cap.calls)
    cap.calls.clear()
    kek2 = c.call(env_seed.get_kek, kid)
    dec_calls = list(cap.calls)
    c.check(all_of([seq_eq(kek1, kek2), len(kek1) == 32]), "ecdh: both sides agree")
    conds = [len(enc_calls) == 2, len(dec_calls) == 3]
    if all(conds):
        ss = enc_calls[0]["key"]
        conds += [len(ss) == kl, _ck_ok(enc_calls[0], chash, ss), _kb_ok(enc_calls[1], hash_name, cap_out(cap, enc_calls[0]), PUBCTX, 32)]
        conds += [_kb_ok(dec_calls[0], hash_name, seed, ctx, kl), len(dec_calls[1]["key"]) == kl, _ck_ok(dec_calls[1], chash, dec_calls[1]["key"]), seq_eq(dec_calls[1]["key"], ss),
                  _kb_ok(dec_calls[2], hash_name, cap_out(cap, dec_calls[1]), PUBCTX, 32)]
    c.check(all_of([x if isinstance(x, (bool, V.SymBool)) else bool(x) for x in conds]), "ecdh: KDF parameters and fixed-width shared secret")
    k = c.call(_gkdi.ECDHKey.unpack, kid.key_info)
    c.check(all_of([len(kid.key_info) == 8 + 2 * kl, k.key_length == kl, k.curve_name == curve, kid.is_public_key]), "ecdh: coordinates are fixed width")
    return True


@harness(P, per_job=True, params=lambda tier: [dict(curve=cv, h1=a, h2=b) for cv, a, b in ([("P256", "SHA256", "SHA512"), ("P384", "SHA1", "SHA384")] if tier == "quick" else
                                                                                        [("P256", a, b) for a in HASHES for b in HASHES if a != b][:6] + [("P384", "SHA512", "SHA1")])],
         max_steps=800000, raises=(ScalarOutOfRange,),
         bounds="a history in one process: the same L2 seed is used first under KDF hash h1 and then under a different hash h2 (ECDH P256/P384, public-key mode): the second "
         "get_kek must still agree with the second new_kek (no state may leak from the first derivation)", outside="DH (same code path up to the agreement)",
         must_reach=("history: second derivation agrees",))
def two_hashes_same_seed(c, curve, h1, h2):
    w, cap = _setup(c)
    seed = c.bytes("l2seed", 64)
    bits = {"P256": 256, "P384": 384}[curve]
    kl = bits // 8
    alg_name = f"ECDH_{curve}"
    cname = {"P256": "secp256r1", "P384": "secp384r1"}[curve]
    ctx = (alg_name + "\0").encode("utf-16-le")
    res = []
    for hn in (h1, h2):
        x_bytes = cap.derive(dict(kind="kbkdf", algorithm=hn.lower(), mode=Mode.CounterMode, length=kl, rlen=4, llen=4, location=CounterLocation.BeforeFixed, label=LABEL,
                                  context=ctx, fixed=None, break_location=None), seed)
        x = V.int_from_bytes(x_bytes, "big") if c.symbolic else int.from_bytes(x_bytes, "big")
        c.assume(all_of([x > 0, x < Algebra.CURVE_ORDER[cname]]))
        el = w.algebra._ec_element(cname, ("G", "G"), [x])
        pub = refs.ref_ecdh_key(curve, kl, el["x"], el["y"])
        env_pub = _env(hn, alg_name, b"", bits, bits, 3, pub)
        env_seed = _env(hn, alg_name, b"", bits, bits, 2, seed)
        kek1, kid = c.call(env_pub.new_kek)
        kek2 = c.call(env_seed.get_kek, kid)
        res.append(seq_eq(kek1, kek2))
    c.check(all_of(res), "history: second derivation agrees")
    return True


@harness(P, bounds="defaults of KeyCache.load_key (what an offline root key means when nothing else is said): secret agreement DH over the RFC 5114 section 2.3 group (p, g transcribed "
         "independently and self-checked through g^q = 1 mod p), key_length 256, private / public key length 512 / 2048, KDF SP800_108_CTR_HMAC with SHA512; the KEK that a "
         "reference-encoded ephemeral key in that group yields is accepted (not refused as a foreign group)", must_reach=("defaults: the root key's DH group is RFC 5114 2.3",))
def default_dh_group(c):
    import uuid

    import dpapi_ng

    cache = dpapi_ng.KeyCache()
    rk = uuid.UUID(int=5)
    c.call(cache.load_key, c.bytes("root", 64), rk)
    r = cache._root_keys[rk]
    want = refs.ref_ffcdh_parameters(256, refs.RFC5114_2_3_P, refs.RFC5114_2_3_G)
    c.check(all_of([seq_eq(r.secret_parameters, want), r.secret_algorithm == "DH", r.private_key_length == 512, r.public_key_length == 2048, r.kdf_algorithm == "SP800_108_CTR_HMAC",
                    seq_eq(r.kdf_parameters, refs.ref_kdf_parameters("SHA512")), r.version == 1]), "defaults: the root key's DH group is RFC 5114 2.3")
    return True

"""C10 - KeyCache is transparent under any history/interleaving and avoids repeat RPCs."""
from __future__ import annotations

import ast
import inspect
import textwrap
import uuid

import dpapi_ng
from cryptography.hazmat.primitives import hashes
from dpapi_ng import _blob, _client, _crypto, _gkdi

from symex import values as V
from vlib.api import all_of, any_of, harness, implies, neg, truth

from . import e2e, refs
from .c02 import HASHES, Key, _envelope, _shape, make_kdf
from .world import seq_eq

META = dict(assumptions=[
    "representation invariant I of the cache: a stored envelope's keys are the MS-GKDI chain elements of its own position (the shape of MS-GKDI 2.2.4). One inductive step from "
    "an arbitrary state satisfying I covers histories of any length; the cache methods are synchronous and contain no await (checked on their AST on every run), so every "
    "interleaving of concurrent API calls is a sequence of these atomic steps",
    "chain-step KDF stub as in C02; conforming-DC stub for the history harness returns the envelope MS-GKDI prescribes for the requested position and counts calls",
])
P = "C10"
RKID = uuid.UUID(int=0x1234)
L0 = 361
SD = b"target-sd-A"
SD2 = b"target-sd-B"


def covers(e1, e2, l1, l2):
    return any_of([e1 > l1, all_of([e1 == l1, e2 >= l2])])


def chain_correct(c, env):
    """the envelope's keys are the chain elements MS-GKDI 2.2.4 prescribes for its own position"""
    l1k, l2k = env.l1_key, env.l2_key
    conds = []
    if truth(env.l2 == 31):
        conds.append(isinstance(l1k, Key) and l1k.kind == "L1" and l1k.j == env.l1)
        if isinstance(l2k, Key):
            conds.append(all_of([l2k.kind == "L2", l2k.j == env.l1, l2k.k == 31]))
        else:
            conds.append(len(l2k) == 0)
    else:
        if truth(env.l1 > 0):
            conds.append(isinstance(l1k, Key) and l1k.kind == "L1" and l1k.j == env.l1 - 1)
        else:
            conds.append(not isinstance(l1k, Key) and len(l1k) == 0)
        conds.append(isinstance(l2k, Key) and all_of([l2k.kind == "L2", l2k.j == env.l1, l2k.k == env.l2]))
    return all_of([x if isinstance(x, (bool, V.SymBool)) else bool(x) for x in conds])


def _pre_state(c, hash_name, tag=""):
    """arbitrary cache state satisfying I for the triple (RKID, SD, L0) plus an untouched neighbour triple"""
    cache = dpapi_ng.KeyCache()
    has_root = truth(c.bool(tag + "has_root"))
    has_env = truth(c.bool(tag + "has_env"))
    if has_root:
        c.call(cache.load_key, Key("Root"), RKID, kdf_parameters=_gkdi.KDFParameters(hash_name).pack())
    st = None
    if has_env:
        e1, e2 = c.int(tag + "st_l1", 0, 31), c.int(tag + "st_l2", 0, 31)
        l1k, l2k = _shape(c, e1, e2, c.bool(tag + "st_l2present"))
        st = _envelope(c, L0, RKID, hash_name, e1, e2, l1k, l2k)
        cache._seed_keys.setdefault(RKID, {}).setdefault(SD, {})[L0] = st
    other = _envelope(c, L0, RKID, hash_name, 7, 7, Key("L1", 6), Key("L2", 7, 7))
    cache._seed_keys.setdefault(RKID, {}).setdefault(SD2, {})[L0] = other
    return cache, has_root, st, other


def _stored(cache):
    return cache._seed_keys.get(RKID, {}).get(SD, {}).get(L0)


def _setup(c, hash_name):
    log = []
    c.stubs([(_crypto.kdf, make_kdf(c, RKID.bytes_le, L0, SD, hash_name, log))])


def ast_has_no_await():
    """the three cache methods are plain synchronous functions without await/yield"""
    for fn in (_client.KeyCache._get_key, _client.KeyCache._store_key, _client.KeyCache.load_key):
        tree = ast.parse(textwrap.dedent(inspect.getsource(fn)))
        if isinstance(tree.body[0], ast.AsyncFunctionDef) or any(isinstance(n, (ast.Await, ast.Yield, ast.YieldFrom)) for n in ast.walk(tree)):
            return False
    return True


@harness(P, params=lambda tier: [dict(hash_name=h, stripe=(tier == "quick")) for h in (["SHA512"] if tier == "quick" else HASHES)], max_steps=60000,
         bounds="step _get_key(l1, l2) from an arbitrary valid pre-state: root key loaded or not, stored envelope absent or at any (L1',L2') in [0,31]^2 with the keys of its own "
         "position, requested (l1,l2) anywhere in [0,31]^2 (quick tier: requested l2 restricted to {0,1,15,30,31} - the derivation that follows forks on every value; thorough: all); one (root key id, SD, L0) triple plus a neighbour triple", outside="L0 values other than the listed one (dictionary key)",
         must_reach=("result covers the request and is chain-correct", "no RPC needed when covering material exists", "invariant preserved", "neighbour triple untouched"))
def get_step(c, hash_name, stripe):
    _setup(c, hash_name)
    cache, has_root, st, other = _pre_state(c, hash_name)
    l1, l2 = c.int("l1", 0, 31), c.int("l2", 0, 31)
    if stripe:
        c.assume(any_of([l2 == 0, l2 == 1, l2 == 15, l2 == 30, l2 == 31]))
    c.check(ast_has_no_await(), "cache methods are synchronous (no await)")
    r = c.call(cache._get_key, SD, RKID, L0, l1, l2)
    had_cover = st is not None and truth(covers(st.l1, st.l2, l1, l2))
    if r is None:
        c.check(not has_root and not had_cover, "no RPC needed when covering material exists")
    else:
        c.check(all_of([covers(r.l1, r.l2, l1, l2), chain_correct(c, r), r.l0 == L0]), "result covers the request and is chain-correct")
        # what the caller does next: derive the key; must be the spec key (C02 on the returned envelope)
        k = c.call(_gkdi.compute_l2_key, HASHES[hash_name](), l1, l2, r)
        c.check(isinstance(k, Key) and k.kind == "L2" and truth(all_of([k.j == l1, k.k == l2])), "derived key is the spec key")
        c.check(True, "no RPC needed when covering material exists")
    now = _stored(cache)
    c.check(now is None or truth(chain_correct(c, now)), "invariant preserved")
    if st is not None:
        c.check(now is not None and truth(any_of([now.l1 > st.l1, all_of([now.l1 == st.l1, now.l2 >= st.l2])])), "stored position never decreases")
    c.check(cache._seed_keys[RKID][SD2][L0] is other and len(cache._seed_keys[RKID][SD2]) == 1, "neighbour triple untouched")
    return r is None


@harness(P, params=lambda tier: [dict(hash_name="SHA256")], max_steps=60000,
         bounds="step _store_key(env) with an arbitrary conforming envelope at any position of [0,31]^2 from an arbitrary valid pre-state",
         must_reach=("store keeps the later position", "invariant preserved"))
def store_step(c, hash_name):
    _setup(c, hash_name)
    cache, has_root, st, other = _pre_state(c, hash_name)
    e1, e2 = c.int("new_l1", 0, 31), c.int("new_l2", 0, 31)
    l1k, l2k = _shape(c, e1, e2, c.bool("new_l2present"))
    env = _envelope(c, L0, RKID, hash_name, e1, e2, l1k, l2k)
    c.call(cache._store_key, SD, env)
    now = _stored(cache)
    if st is None:
        c.check(now is env, "store keeps the later position")
    else:
        later = any_of([e1 > st.l1, all_of([e1 == st.l1, e2 > st.l2])])
        c.check((now is env) if truth(later) else (now is st), "store keeps the later position")
        c.check(truth(any_of([now.l1 > st.l1, all_of([now.l1 == st.l1, now.l2 >= st.l2])])), "stored position never decreases")
    c.check(truth(chain_correct(c, now)), "invariant preserved")
    c.check(cache._seed_keys[RKID][SD2][L0] is other, "neighbour triple untouched")
    # after the store every position at or before max(pre, new) on this triple is served from the cache
    q1, q2 = c.int("q1", 0, 31), c.int("q2", 0, 31)
    c.assume(covers(now.l1, now.l2, q1, q2))
    r = c.call(cache._get_key, SD, RKID, L0, q1, q2)
    c.check(r is not None and truth(covers(r.l1, r.l2, q1, q2)), "covered positions are served without an RPC afterwards")
    return True


# ------------------------------------------------------------------------------------------------ histories through the public API


def _chain(w, hash_name, root, sd, rkid, l0):
    """independent reference implementation of the MS-GKDI derivation chain on the ideal KDF (used by the conforming-DC stub)"""
    alg = HASHES[hash_name]()
    label = "KDS service\0".encode("utf-16-le")

    def ctx(a, b, c_):
        return refs.cat(rkid.bytes_le, refs.le(a, 4, True), refs.le(b, 4, True), refs.le(c_, 4, True))

    l0seed = w.kdf(alg, root, label, ctx(l0, -1, -1), 64)
    l1 = {31: w.kdf(alg, l0seed, label, refs.cat(ctx(l0, 31, -1), sd), 64)}
    for j in range(30, -1, -1):
        l1[j] = w.kdf(alg, l1[j + 1], label, ctx(l0, j, -1), 64)

    def l2key(j, k):
        cur = w.kdf(alg, l1[j], label, ctx(l0, j, 31), 64)
        for kk in range(30, k - 1, -1):
            cur = w.kdf(alg, cur, label, ctx(l0, j, kk), 64)
        return cur

    return l1, l2key


class DC:
    """conforming domain controller: GetKey(sd, rkid, l0, l1, l2) -> envelope of MS-GKDI 2.2.4 for that position (or for 'now' when -1,-1,-1)"""

    def __init__(self, c, w, hash_name, root, now, public_for_protect=False):
        self.c, self.w, self.hash_name, self.root, self.now = c, w, hash_name, root, now
        self.public_for_protect = public_for_protect
        self.calls = []

    def get_key(self, server, target_sd, root_key_id=None, l0=-1, l1=-1, l2=-1, **kw):
        self.calls.append((target_sd, l0, l1, l2))
        if l0 == -1 and self.public_for_protect:
            # the caller may encrypt for the SID but is not a member: the DC hands out the group *public* key only
            l0, l1, l2 = self.now
            rkid = root_key_id or e2e.RK
            chain_l1, l2key = _chain(self.w, self.hash_name, self.root, target_sd, rkid, l0)
            xb = self.w.kdf(HASHES[self.hash_name](), l2key(l1, l2), "KDS service\0".encode("utf-16-le"), "ECDH_P256\0".encode("utf-16-le"), 32)
            x = V.int_from_bytes(xb, "big") if self.c.symbolic else int.from_bytes(xb, "big")
            self.c.assume(all_of([x > 0, x < self.w.algebra.CURVE_ORDER["secp256r1"]]))
            el = self.w.algebra._ec_element("secp256r1", ("G", "G"), [x])
            pub = refs.ref_ecdh_key("P256", 32, el["x"], el["y"])
            return _gkdi.GroupKeyEnvelope(1, 3, l0, l1, l2, rkid, "SP800_108_CTR_HMAC", _gkdi.KDFParameters(self.hash_name).pack(), "ECDH_P256", b"", 256, 256, "d.test", "f.test", b"", pub)
        if l0 == -1:
            l0, l1, l2 = self.now
        rkid = root_key_id or e2e.RK
        chain_l1, l2key = _chain(self.w, self.hash_name, self.root, target_sd, rkid, l0)
        if l2 == 31:
            l1k, l2k = chain_l1[l1], b""
        else:
            l1k, l2k = (chain_l1[l1 - 1] if l1 > 0 else b""), l2key(l1, l2)
        return _gkdi.GroupKeyEnvelope(1, 2, l0, l1, l2, rkid, "SP800_108_CTR_HMAC", _gkdi.KDFParameters(self.hash_name).pack(), "DH", b"", 512, 2048, "d.test", "f.test", l1k, l2k)


def _blob_at(c, w, hash_name, root, sid, pos, pt):
    """a blob for position pos produced by an independent party that holds the root key"""
    cache = e2e.loaded_cache(c, root, hash_name)
    sd = _blob.SIDDescriptor(sid).get_target_sd()
    rk = c.call(cache._get_key, sd, e2e.RK, pos[0], 31, 31)
    l2 = c.call(_gkdi.compute_l2_key, HASHES[hash_name](), pos[1], pos[2], rk)
    env = _gkdi.GroupKeyEnvelope(1, 2, pos[0], pos[1], pos[2], e2e.RK, rk.kdf_algorithm, rk.kdf_parameters, rk.secret_algorithm, rk.secret_parameters, 512, 2048, "d.test", "f.test", b"", l2)
    return c.call(_client._encrypt_blob, pt, env, _blob.SIDDescriptor(sid))


HISTORIES = [
    # (name, ops)  op = ("unprotect", blob index) | ("load",) | ("protect",)
    ("later then earlier on the same triple: second call needs no RPC", [("unprotect", 0), ("unprotect", 1)], [1, 0]),
    ("earlier then later: second call needs an RPC, third (earlier again) does not", [("unprotect", 1), ("unprotect", 0), ("unprotect", 1)], [1, 1, 0]),
    ("root key loaded after an RPC-obtained envelope that does not cover", [("unprotect", 1), ("load",), ("unprotect", 0), ("unprotect", 2)], [1, 0, 0, 0]),
    ("root key first: never an RPC", [("load",), ("unprotect", 0), ("unprotect", 1), ("protect",)], [0, 0, 0, 0]),
    ("other L0 and other SID are separate triples", [("unprotect", 0), ("unprotect", 3), ("unprotect", 4), ("unprotect", 1)], [1, 1, 1, 0]),
    ("protect via the DC then unprotect its own blob", [("protect",), ("unprotect", -1)], [1, 0]),
    ("root key, protect now, then a blob from an earlier L1 interval of the same L0", [("load",), ("protect",), ("unprotect", 1), ("unprotect", 0)], [0, 0, 0, 0]),
    ("a public-key reply to protect is not seed material: the later unprotect still asks the DC and succeeds", [("protect_pub",), ("unprotect", 1), ("unprotect", 0)], [1, 1, 1]),
    ("seed keys cached by unprotect survive a later public-key protect", [("unprotect", 0), ("protect_pub",), ("unprotect", 1)], [1, 1, 0]),
    ("loading a different root key leaves the envelopes cached for this one alone", [("unprotect", 0), ("load_other",), ("unprotect", 1), ("unprotect", 0)], [1, 0, 0, 0]),
    ("an empty cache handed in by the caller is the one that gets filled", [("unprotect", 0), ("unprotect", 0), ("unprotect", 1)], [1, 0, 0]),
    # two calls in flight on one cache (two tasks / two threads): while the call for the EARLIER blob waits for its GetKey reply, a call for the LATER blob runs
    # to completion; afterwards the cache must still hold the later envelope
    ("a call for a later position completes while a call for an earlier one waits for the DC", [("unprotect_during", 1, 0), ("unprotect", 0), ("unprotect", 1)], [2, 0, 0]),
    ("a call for an earlier position completes while a call for a later one waits for the DC", [("unprotect_during", 0, 1), ("unprotect", 0), ("unprotect", 1)], [2, 0, 0]),
]
BLOBS = [(361, 9, 4, 0), (361, 3, 7, 0), (361, 9, 5, 0), (362, 1, 1, 0), (361, 9, 4, 1)]  # (l0, l1, l2, sid index)


@harness(P, per_job=True, params=lambda tier: [dict(h=i, flavour=f) for i in range(len(HISTORIES)) for f in (("sync",) if tier == "quick" and i < 7 else ("sync", "async"))],
         max_steps=4000000, raises=(e2e.ScalarOutOfRange,),
         bounds="13 listed operation histories (up to 4 calls; two of them with a second call running to completion while the first waits for its GetKey reply) over {load root key, load another root key, unprotect blobs at 5 listed positions on 2 L0s / 2 SIDs, protect now with a seed-key or a public-key reply} through the public API against "
         "a conforming-DC stub that counts GetKey calls; plaintexts symbolic", outside="other histories (the inductive steps above cover histories of any length at cache level)",
         must_reach=("same plaintext as with a fresh cache", "domain controller contacted exactly when no covering material was cached"))
def histories(c, h, flavour):
    name, ops, want_rpc = HISTORIES[h]
    hash_name = "SHA256"
    lo, _ = e2e.window(361, 9, 6, -5, -5)
    dc_holder = {}

    pending = {}

    def sync_get_key(*a, **k):
        if pending:
            blob_, pt_ = pending.pop("other")
            out_ = c.call(dpapi_ng.ncrypt_unprotect_secret, blob_, server="dc", cache=pending.pop("cache"))
            c.check(seq_eq(out_, pt_), "same plaintext as with a fresh cache")
        return dc_holder["dc"].get_key(*a, **k)

    async def async_get_key(*a, **k):
        if pending:
            blob_, pt_ = pending.pop("other")
            cache_ = pending.pop("cache")
            if c.symbolic:
                out_ = c.call_async(dpapi_ng.async_ncrypt_unprotect_secret, blob_, server="dc", cache=cache_)
            else:
                out_ = await dpapi_ng.async_ncrypt_unprotect_secret(blob_, server="dc", cache=cache_)
            c.check(seq_eq(out_, pt_), "same plaintext as with a fresh cache")
        return dc_holder["dc"].get_key(*a, **k)

    w = e2e.new_world(c, lo, lo, extra=[(_client._sync_get_key, sync_get_key), (_client._async_get_key, async_get_key)])
    root = c.bytes("root", 64)
    dc = dc_holder["dc"] = DC(c, w, hash_name, root, (361, 9, 6))
    pts = [c.bytes(f"pt{i}", 4) for i in range(len(BLOBS))]
    blobs = [_blob_at(c, w, hash_name, root, e2e.SIDS[b[3]], b[:3], pts[i]) for i, b in enumerate(BLOBS)]
    cache = dpapi_ng.KeyCache()
    last_protected = None
    ppt = c.bytes("ppt", 4)
    for (op, *arg), rpc in zip(ops, want_rpc):
        before = len(dc.calls)
        if op == "load":
            c.call(cache.load_key, root, e2e.RK, kdf_parameters=_gkdi.KDFParameters(hash_name).pack())
        elif op == "load_other":
            import uuid

            c.call(cache.load_key, c.bytes("other_root", 64), uuid.UUID(int=0xABCDEF), kdf_parameters=_gkdi.KDFParameters(hash_name).pack())
        elif op in ("protect", "protect_pub"):
            dc.public_for_protect = op == "protect_pub"
            if op == "protect_pub":
                if flavour == "sync":
                    out_pub = c.call(dpapi_ng.ncrypt_protect_secret, ppt, e2e.SIDS[0], root_key_identifier=e2e.RK, server="dc", cache=cache)
                else:
                    out_pub = c.call_async(dpapi_ng.async_ncrypt_protect_secret, ppt, e2e.SIDS[0], root_key_identifier=e2e.RK, server="dc", cache=cache)
                yk = c.call(_blob.DPAPINGBlob.unpack, out_pub).key_identifier
                c.check(all_of([yk.is_public_key, yk.l0 == 361, yk.l1 == 9, yk.l2 == 6]), "public-key protect names the current interval")
            elif flavour == "sync":
                last_protected = c.call(dpapi_ng.ncrypt_protect_secret, ppt, e2e.SIDS[0], root_key_identifier=e2e.RK, server="dc", cache=cache)
            else:
                last_protected = c.call_async(dpapi_ng.async_ncrypt_protect_secret, ppt, e2e.SIDS[0], root_key_identifier=e2e.RK, server="dc", cache=cache)
            if op == "protect":
                y = c.call(_blob.DPAPINGBlob.unpack, last_protected)
                c.check(all_of([y.key_identifier.l0 == 361, y.key_identifier.l1 == 9, y.key_identifier.l2 == 6]), "protect names the current interval")
        else:
            i = arg[0]
            if op == "unprotect_during":
                pending["other"], pending["cache"] = (blobs[arg[1]], pts[arg[1]]), cache
            blob, pt = (last_protected, ppt) if i == -1 else (blobs[i], pts[i])
            if flavour == "sync":
                out = c.call(dpapi_ng.ncrypt_unprotect_secret, blob, server="dc", cache=cache)
            else:
                out = c.call_async(dpapi_ng.async_ncrypt_unprotect_secret, blob, server="dc", cache=cache)
            c.check(seq_eq(out, pt), "same plaintext as with a fresh cache")
        c.check(len(dc.calls) - before == rpc, "domain controller contacted exactly when no covering material was cached")
    return len(dc.calls)


@harness(P, params=lambda tier: [dict(hash_name="SHA512", flavour=f) for f in (("sync",) if tier == "quick" else ("sync", "async"))], max_steps=400000,
         bounds="step 'protect served from the cache' (the glue of ncrypt_protect_secret: _get_protection_gke_from_cache, then _store_key of what it returned) from an arbitrary valid "
         "pre-state, clock symbolic over three adjacent L2 intervals of L0=361 around an L1 boundary: afterwards the stored envelope for the triple still has the chain keys of its own "
         "position (invariant I) and still covers every position it covered before", outside="other clock windows (each L2 interval is one derivation path)",
         must_reach=("protect step: invariant preserved", "protect step: coverage not reduced"))
def protect_step(c, hash_name, flavour):
    import time

    from dpapi_ng import _client as cl

    lo, hi = e2e.window(361, 10, 0, e2e.B + 3, e2e.B + 3)
    t = c.int("time_ns", lo, hi)
    log = []
    c.stubs([(_crypto.kdf, make_kdf(c, RKID.bytes_le, L0, SD, hash_name, log)), (time.time_ns, lambda: t)])
    cache, has_root, st, other = _pre_state(c, hash_name)
    rk = c.call(cl._get_protection_gke_from_cache, RKID, SD, cache)
    if rk is not None and not truth(rk.is_public_key):
        c.call(cache._store_key, SD, rk)
    now = _stored(cache)
    if rk is None:
        c.check(not has_root and (st is None or not truth(covers(st.l1, st.l2, 31, 31)) or True), "protect step: cache miss only without usable material")
    c.check(now is None or truth(chain_correct(c, now)), "protect step: invariant preserved")
    if st is not None:
        c.check(now is not None and truth(covers(now.l1, now.l2, st.l1, st.l2)), "protect step: coverage not reduced")
    elif has_root:
        c.check(now is not None and truth(all_of([now.l1 == 31, now.l2 == 31])), "protect step: coverage not reduced")
    else:
        c.check(True, "protect step: coverage not reduced")
    return rk is None

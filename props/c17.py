"""C17 - online vs a conforming DC: faithful requests, correct results, sync = async."""
from __future__ import annotations

import asyncio
import socket
import types
import uuid

import dpapi_ng
import spnego
from dpapi_ng import _blob, _client, _gkdi
from dpapi_ng._rpc import _client as rc

from symex import values as V
from vlib.api import all_of, harness, truth

from . import e2e, refs, secctx
from .c02 import HASHES
from .c10 import _blob_at, _chain
from .world import ScalarOutOfRange  # noqa
from .world import seq_eq

META = dict(assumptions=[
    "reference domain controller written in the harness from C706 / MS-RPCE / MS-GKDI (its own PDU, NDR64 and tower decoders and encoders, props/refs.py) on top of the ideal "
    "KDF / AEAD / DH algebra and the ideal security context; sockets, asyncio streams, spnego.client are replaced by in-process stubs connected to it",
    "the security context is deterministic within one path (same tokens, same sealing for the same plaintext), so that the sync and async conversations can be compared byte-wise",
    "real NTLM/Kerberos, real sockets and Windows itself are outside the technique",
])
P = "C17"
ISD_KEY_UUID = uuid.UUID("b9785960-524f-11df-8b6d-83dcded72085")
EPM_UUID = uuid.UUID("e1af8308-5d1f-11c9-91a4-08002b14a0fa")
NDR64_UUID = uuid.UUID("71710533-beba-4937-8319-b5dbef9ccc36")
NDR_UUID = uuid.UUID("8a885d04-1ceb-11c9-9fe8-08002b104860")
BTFN_PREFIX = uuid.UUID(fields=(0x6CB71C2C, 0x9812, 0x4540, 0, 0, 0)).bytes_le[:8]
VT_SIG = bytes.fromhex("8ae3137102f43671")


class Script:
    """deterministic ideal security context shared by the sync and the async run of one path"""

    def __init__(self, c, legs=2):
        self.c, self.legs = c, legs
        self.tokens = {}
        self.seals = []  # ((header?, body), sealed, sig)
        self.n = 0

    def token(self, i):
        if i not in self.tokens:
            self.tokens[i] = self.c.bytes(f"ctok{i}", 4)
        return self.tokens[i]


class Ctx(secctx.IdealContext):
    """one client security context (one per authenticated connection); sealing is a deterministic function shared through the Script"""

    def __init__(self, c, script):
        super().__init__(c, 16, tokens=script.legs)
        self.script = script

    def step(self, in_token=None):
        self.steps += 1
        self.in_tokens.append(in_token)
        tok = self.script.token(self.steps)
        if self.steps >= self.nlegs:
            self.complete = True
        self.out_tokens.append(tok)
        return tok

    def wrap_iov(self, iov, encrypt=True, qop=None):
        bufs = [secctx._norm(b) for b in iov]
        data = [d for t, d in bufs if t == secctx.BT.data][0]
        hit = None
        for body, sealed, sig in self.script.seals:
            if len(body) == len(data) and truth(seq_eq(body, data)):
                hit = (sealed, sig)
                break
        if hit is None:
            self.script.n += 1
            hit = (self.c.bytes(f"sealed{self.script.n}", len(data)), self.c.bytes(f"wsig{self.script.n}", 16))
            self.script.seals.append((data, hit[0], hit[1]))
        self.wrap_calls.append(dict(bufs=bufs, encrypt=encrypt, sealed=hit[0], sig=hit[1]))
        out = []
        for t, d in bufs:
            out.append(types.SimpleNamespace(type=t, data=hit[0] if t == secctx.BT.data else (hit[1] if t == secctx.BT.header else d)))
        return types.SimpleNamespace(buffers=tuple(out), encrypted=encrypt)


def u(b, off, n, signed=False):
    v = b[off : off + n]
    if isinstance(v, (bytes, bytearray)):
        return int.from_bytes(v, "little", signed=signed)
    return V.int_from_bytes(v, "little", signed=signed)


def conc(c, v):
    return v if isinstance(v, int) else c.concretize(v)


def _dec(c, n):
    """decimal digits of a port number as bytes; the number of digits is fixed by the job's range"""
    if not c.symbolic or isinstance(n, int):
        return str(n).encode()
    nd = len(str(n.hi))
    assert len(str(max(n.lo, 0))) == nd
    return V.SymBytes([((n // 10 ** (nd - 1 - i)) % 10) + 48 for i in range(nd)])


class DC:
    """reference domain controller: endpoint mapper on 135, ISD_KEY interface on `port`"""

    def __init__(self, c, w, script, hash_name, root, now, reply_kind, port, tag, want_pad=None):
        self.c, self.w, self.script, self.hash_name, self.root, self.now, self.reply_kind, self.port, self.tag = c, w, script, hash_name, root, now, reply_kind, port, tag
        self.want_pad = want_pad
        self.authn = 9  # RPC_C_AUTHN_GSS_NEGOTIATE; 10 = WINNT (ntlm), 16 = GSS_KERBEROS
        self.reply_pads = []
        self.connections = []  # (host, port)
        self.sent = []  # every PDU the client sent, in order, as (connection index, bytes)
        self.getkey_requests = []
        self.findings = []  # protocol violations observed by the DC
        self.ctxs = []
        self.n = 0

    # -- transport factories -------------------------------------------------------------------------------------------
    def connect(self, host, port):
        idx = len(self.connections)
        self.connections.append((host, port))
        cn = Conn(self, idx, port)
        if not truth(port == 135):
            # create_rpc_connection builds the AuthenticationProvider (hence the security context) before it connects
            cn.ctx = self.ctxs[-1] if self.ctxs else None
        return cn

    def new_ctx(self):
        ctx = Ctx(self.c, self.script)
        self.ctxs.append(ctx)
        return ctx

    def note(self, ok, what):
        if ok is not True:
            if not (isinstance(ok, V.SymBool) and False):
                self.findings.append((ok, what))

    # -- PDU handling ----------------------------------------------------------------------------------------------------
    def on_pdu(self, conn, b):
        c = self.c
        self.sent.append((conn.idx, b))
        ptype, flags = b[2], b[3]
        frag_len, auth_len, call_id = u(b, 8, 2), u(b, 10, 2), u(b, 12, 4)
        self.note(all_of([b[0] == 5, b[1] == 0, frag_len == len(b), b[4] == 0x10]), "PDU header: version 5.0, little-endian data representation, frag_len = size")
        is_epm = truth(conn.port == 135)
        if ptype in (11, 14):
            return self.on_bind(conn, b, ptype, flags, auth_len, is_epm)
        if ptype == 0:
            return self.on_request(conn, b, flags, auth_len, is_epm)
        self.note(False, f"unexpected PDU type {ptype}")
        return b""

    def _contexts(self, b):
        n = b[24]
        off, out = 28, []
        for _ in range(n):
            cid, nts = u(b, off, 2), b[off + 2]
            abstract = (b[off + 4 : off + 20], u(b, off + 20, 2), u(b, off + 22, 2))
            ts = []
            p = off + 24
            for _ in range(nts):
                ts.append((b[p : p + 16], u(b, p + 16, 2), u(b, p + 18, 2)))
                p += 20
            out.append((cid, abstract, ts))
            off = p
        return out, off

    def on_bind(self, conn, b, ptype, flags, auth_len, is_epm):
        ctxs, end = self._contexts(b)
        want_uuid = EPM_UUID if is_epm else ISD_KEY_UUID
        if ptype == 11:
            conn.contexts = ctxs
            self.note(len(ctxs) >= 1 and bytes(ctxs[0][1][0]) == want_uuid.bytes_le and ctxs[0][0] == 0 and bytes(ctxs[0][2][0][0]) == NDR64_UUID.bytes_le,
                      "bind offers the expected interface over NDR64 as context 0")
        results = []
        for cid, abstract, ts in ctxs:
            if bytes(ts[0][0]) == NDR64_UUID.bytes_le:
                results.append((0, 0, NDR64_UUID.bytes_le, 1))
            elif bytes(ts[0][0][:8]) == BTFN_PREFIX:
                results.append((3, 3, bytes(16), 0))
            else:
                results.append((2, 2, bytes(16), 0))
        tr = b""
        ack_auth = 0
        if is_epm:
            self.note(auth_len == 0, "endpoint-mapper bind is unauthenticated")
        else:
            self.note(auth_len != 0, "ISD_KEY bind carries a security trailer")
            trailer = b[end : end + 8]
            token = b[end + 8 : end + 8 + auth_len]
            conn.legs += 1
            self.note(all_of([trailer[0] == self.authn, trailer[1] == 6, trailer[2] == 0, seq_eq(token, self.script.token(conn.legs)), len(b) == end + 8 + auth_len]),
                      "security trailer: the provider the caller asked for / PKT_PRIVACY / the provider's token for this leg")
            stok = self.c.bytes(f"{self.tag}stok{conn.legs}", 4) if False else self.script_server_token(conn.legs)
            tr = refs.cat(bytes([self.authn, 6, 0, 0, 0, 0, 0, 0]), stok)
            ack_auth = 4
        pt = 12 if ptype == 11 else 15
        sec_addr = refs.cat(_dec(self.c, self.port if not truth(conn.port == 135) else 135), b"\0") if ptype == 11 else b""  # the port the server listens on, in decimal
        body = refs.cat(refs.le(5840, 2), refs.le(5840, 2), refs.le(0x1234, 4), refs.le(len(sec_addr), 2), sec_addr, bytes(-(2 + len(sec_addr)) % 4), refs.le(len(results), 4),
                        *[refs.cat(refs.le(r[0], 2), refs.le(r[1], 2), r[2], refs.le(r[3], 4)) for r in results])
        n = 16 + len(body) + len(tr)
        # the server supports header signing and says so on every leg
        hdr = refs.cat(bytes([5, 0, pt, 3 | 4, 0x10, 0, 0, 0]), refs.le(n, 2), refs.le(ack_auth, 2), refs.le(1, 4))
        return refs.cat(hdr, body, tr)

    def script_server_token(self, leg):
        key = ("s", leg)
        if key not in self.script.tokens:
            self.script.tokens[key] = self.c.bytes(f"stok{leg}", 4)
        return self.script.tokens[key]

    def on_request(self, conn, b, flags, auth_len, is_epm):
        c = self.c
        alloc_hint, cid, opnum = u(b, 16, 4), u(b, 20, 2), u(b, 22, 2)
        self.note(all_of([cid == 0, (flags & 0x80) == 0]), "request on presentation context 0, no object UUID")
        if is_epm:
            self.note(all_of([auth_len == 0, opnum == 3]), "ept_map is opnum 3, unauthenticated")
            stub = b[24:]
            return self.ept_map(conn, stub, alloc_hint)
        self.note(all_of([auth_len == 16, opnum == 0]), "GetKey is opnum 0 and carries a 16-byte signature")
        ctx = conn.ctx
        self.note(ctx is not None and ctx.complete and len(ctx.wrap_calls) == 1, "request is sent once the security context is complete and was sealed exactly once")
        call = ctx.wrap_calls[-1]
        (ht, h), (bt, plain), (tt, t), (st, _) = call["bufs"]
        BT = secctx.BT
        n = len(b)
        self.note(all_of([seq_eq(b[:24], h), seq_eq(b[24 : n - 24], call["sealed"]), seq_eq(b[n - 24 : n - 16], t), seq_eq(b[n - 16 :], call["sig"]), call["encrypt"] is True, bt == BT.data,
                          ht == BT.sign_only, tt == BT.sign_only, t[0] == self.authn, t[1] == 6, len(plain) % 16 == 0, t[2] < 16, alloc_hint == len(plain)]),
                  "wire = header | Seal(stub+pad) | trailer | signature at PKT_PRIVACY with header signing (both sides advertised it)")
        pad = conc(c, t[2])
        body = plain[: len(plain) - pad]
        self.note(seq_eq(plain[len(plain) - pad :], bytes(pad)), "auth padding is zero")
        return self.get_key(conn, body, h)

    # -- endpoint mapper -------------------------------------------------------------------------------------------------------------
    def ept_map(self, conn, stub, alloc_hint):
        # ept_map([in] obj, [in] map_tower, [in,out] entry_handle, [in] max_towers) in NDR64
        tower_len = conc(self.c, u(stub, 32, 8))
        floors = conc(self.c, u(stub, 44, 2))
        tower = stub[44 : 44 + tower_len]
        # floor 1: interface UUID + version; floor 2: transfer syntax; floor 3: RPC connection-oriented; floor 4: TCP; floor 5: IP
        f1 = tower[2 : 2 + 25]
        self.note(all_of([u(stub, 40, 4) == tower_len, floors == 5, f1[2] == 0x0D, seq_eq(f1[3:19], ISD_KEY_UUID.bytes_le), u(f1, 19, 2) == 1, tower[2 + 25 + 2] == 0x0D,
                          seq_eq(tower[2 + 25 + 3 : 2 + 25 + 19], NDR_UUID.bytes_le), alloc_hint == len(stub)]), "ept_map asks for the ISD_KEY interface tower over ncacn_ip_tcp")
        max_towers = u(stub, len(stub) - 4, 4)
        self.note(max_towers >= 1, "max_towers >= 1")
        mk = lambda port: refs.ref_tower([refs.ref_floor(0x0D, refs.cat(ISD_KEY_UUID.bytes_le, refs.le(1, 2)), refs.le(0, 2)),
                                          refs.ref_floor(0x0D, refs.cat(NDR_UUID.bytes_le, refs.le(2, 2)), refs.le(0, 2)),
                                          refs.ref_floor(0x0B, b"", refs.le(0, 2)), refs.ref_floor(0x07, b"", port.to_bytes(2, "big")), refs.ref_floor(0x09, b"", bytes(4))])
        reply = refs.ref_ept_map_result(bytes(20), [mk(self.port)], 0)
        return self.response(conn, reply, None)

    # -- GetKey ---------------------------------------------------------------------------------------------------------------------
    def get_key(self, conn, body, header24):
        c = self.c
        sd_len = conc(c, u(body, 0, 4))
        sd = body[16 : 16 + sd_len]
        p = 16 + sd_len + (-sd_len % 8)
        ref = u(body, p, 8)
        if truth(ref == 0):
            rkid, p = None, p + 8
        else:
            rkid, p = body[p + 8 : p + 24], p + 24
        l0, l1, l2 = u(body, p, 4, True), u(body, p + 4, 4, True), u(body, p + 8, 4, True)
        p += 12
        self.note(all_of([u(body, 4, 4) == 0, u(body, 8, 8) == sd_len]), "NDR64: cbTargetSD, alignment, conformance of pbTargetSD")
        # verification trailer: 4-byte aligned after the stub, ISD_KEY / NDR64 pcontext command with the END flag
        vt = p + (-p % 4)
        self.note(all_of([seq_eq(body[p:vt], bytes(vt - p)), seq_eq(body[vt : vt + 8], VT_SIG), u(body, vt + 8, 2) == (0x4000 | 2), u(body, vt + 10, 2) == 40,
                          seq_eq(body[vt + 12 : vt + 28], ISD_KEY_UUID.bytes_le), u(body, vt + 28, 4) == 1, seq_eq(body[vt + 32 : vt + 48], NDR64_UUID.bytes_le), u(body, vt + 48, 4) == 1,
                          len(body) == vt + 52]), "verification trailer: SEC_VT_COMMAND_PCONTEXT|END for ISD_KEY over NDR64 at the next 4-byte boundary, nothing after it")
        self.getkey_requests.append(dict(sd=sd, rkid=rkid, l0=l0, l1=l1, l2=l2))
        if truth(l0 == -1):
            q0, q1, q2 = self.now
        else:
            q0, q1, q2 = conc(c, l0), conc(c, l1), conc(c, l2)
        if not (0 <= q1 <= 31 and 0 <= q2 <= 31 and q0 >= 0) or (truth(l0 == -1) and not truth(all_of([l1 == -1, l2 == -1]))):
            # MS-GKDI 3.1.4.1: a request that names only part of a key identifier is answered with E_INVALIDARG and no key
            return self.response(conn, refs.cat(refs.le(0, 4), bytes(4), refs.le(0, 8), refs.le(0x80070057, 4)), conn.ctx)
        rk = uuid.UUID(bytes_le=bytes(rkid)) if rkid is not None else e2e.RK
        sdv = bytes(sd) if not isinstance(sd, V.SymSeq) or sd.concrete() else sd
        # the domain name length decides the reply length: pick it so that the sealed reply needs the wanted auth padding (0, 4, 8 or 12)
        for extra in range(8):
            self.domain = "domain.test" + "x" * extra
            env = self.envelope(sdv, rk, q0, q1, q2)
            reply = refs.ref_getkey_response(env, 0)
            if self.want_pad is None or (-len(reply)) % 16 == self.want_pad:
                break
        self.reply_pads.append((-len(reply)) % 16)
        return self.response(conn, reply, conn.ctx)

    def envelope(self, sd, rk, l0, l1, l2):
        chain_l1, l2key = _chain(self.w, self.hash_name, self.root, sd, rk, l0)
        kdfp = refs.ref_kdf_parameters(self.hash_name)
        if self.reply_kind == "seed":
            if l2 == 31:
                l1k, l2k = chain_l1[l1], b""
            else:
                l1k, l2k = (chain_l1[l1 - 1] if l1 > 0 else b""), l2key(l1, l2)
            return refs.ref_group_key_envelope(1, 2, l0, l1, l2, rk.bytes_le, "SP800_108_CTR_HMAC", kdfp, "DH", self.secret_params("DH"), 512, 2048, self.domain, "forest.test", l1k, l2k)
        alg = self.reply_kind  # DH / ECDH_P256 / ECDH_P384: the caller may only encrypt: group public key
        seed = l2key(l1, l2)
        priv_bits = {"DH": 512, "ECDH_P256": 256, "ECDH_P384": 384}[alg]
        xb = self.w.kdf(HASHES[self.hash_name](), seed, "KDS service\0".encode("utf-16-le"), (alg + "\0").encode("utf-16-le"), priv_bits // 8)
        x = V.int_from_bytes(xb, "big") if self.c.symbolic else int.from_bytes(xb, "big")
        if alg == "DH":
            prm = _gkdi.FFCDHParameters.unpack(self.secret_params("DH"))
            y = self.w.algebra.pow(prm.generator, x, prm.field_order)
            pub = refs.ref_ffcdh_key(prm.key_length, prm.field_order, prm.generator, y)
            publen = 2048
        else:
            cname = {"ECDH_P256": "secp256r1", "ECDH_P384": "secp384r1"}[alg]
            self.c.assume(all_of([x > 0, x < self.w.algebra.CURVE_ORDER[cname]]))
            el = self.w.algebra._ec_element(cname, ("G", "G"), [x])
            pub = refs.ref_ecdh_key(alg[-4:], priv_bits // 8, el["x"], el["y"])
            publen = priv_bits
        return refs.ref_group_key_envelope(1, 3, l0, l1, l2, rk.bytes_le, "SP800_108_CTR_HMAC", kdfp, alg, self.secret_params(alg), priv_bits, publen, self.domain, "forest.test", b"", pub)

    def secret_params(self, alg):
        if alg != "DH":
            return b""
        cache = dpapi_ng.KeyCache()
        cache.load_key(b"", uuid.UUID(int=1))
        return cache._root_keys[uuid.UUID(int=1)].secret_parameters

    # -- response framing ---------------------------------------------------------------------------------------------------------------
    def response(self, conn, stub, ctx):
        if ctx is None:
            n = 24 + len(stub)
            return refs.cat(bytes([5, 0, 2, 3, 0x10, 0, 0, 0]), refs.le(n, 2), refs.le(0, 2), refs.le(1, 4), refs.le(len(stub), 4), refs.le(0, 2), bytes(2), stub)
        pad = -len(stub) % 16
        plain = refs.cat(stub, bytes(pad))
        n = 24 + len(plain) + 8 + 16
        header = refs.cat(bytes([5, 0, 2, 3, 0x10, 0, 0, 0]), refs.le(n, 2), refs.le(16, 2), refs.le(1, 4), refs.le(len(plain), 4), refs.le(0, 2), bytes(2))
        trailer = bytes([self.authn, 6, pad, 0, 0, 0, 0, 0])
        # sealing by the server is deterministic as well (same reply -> same octets in the sync and the async run)
        hit = None
        for body, sealed, sig in self.script.seals:
            if len(body) == len(plain) and truth(seq_eq(body, plain)):
                hit = (sealed, sig)
        if hit is None:
            self.script.n += 1
            hit = (self.c.bytes(f"sealed{self.script.n}", len(plain)), self.c.bytes(f"wsig{self.script.n}", 16))
            self.script.seals.append((plain, hit[0], hit[1]))
        ctx.add_authentic(header, hit[0], trailer, hit[1], plain)
        return refs.cat(header, hit[0], trailer, hit[1])


class Conn:
    """one TCP connection to the reference DC; serves the sync socket API and backs the asyncio stream stubs"""

    def __init__(self, dc, idx, port):
        self.dc, self.idx, self.port = dc, idx, port
        self.pending, self.pos = b"", 0
        self.ctx = None
        self.legs = 0
        self.contexts = []
        self.closed = False

    def settimeout(self, t):
        pass

    def sendall(self, b):
        self.pending, self.pos = self.dc.on_pdu(self, refs.cat(b)), 0

    def _segment(self, want):
        """TCP delivers a reply in segments: a read gets at most (about) half of what is still pending, at least one octet"""
        avail = len(self.pending) - self.pos
        return min(want, avail if avail <= 1 else (avail + 1) // 2)

    def recv_into(self, view, nbytes=0, flags=0):
        # socket.recv_into contract: nbytes == 0 means "up to len(buffer)"
        want = nbytes if nbytes else len(view)
        k = self._segment(want)
        if k:
            view[:k] = self.pending[self.pos : self.pos + k]
        self.pos += k
        return k

    def recv_exactly(self, n):
        k = min(n, len(self.pending) - self.pos)
        out = self.pending[self.pos : self.pos + k]
        self.pos += k
        return out

    def recv(self, n):
        k = self._segment(n)
        out = self.pending[self.pos : self.pos + k]
        self.pos += k
        return out

    def shutdown(self, how):
        pass

    def close(self):
        self.closed = True


def _run(c, w, script, flavour, op, hash_name, root, now, reply_kind, port, blob, pt, sid, rk_given, cache, want_pad=None):
    dc = DC(c, w, script, hash_name, root, now, reply_kind, port, flavour[0] + "_", want_pad)
    dc.conns = []

    def create_connection(addr, timeout=None, **kw):
        cn = dc.connect(addr[0], addr[1])
        dc.conns.append(cn)
        return cn

    async def open_connection(host, port=None, **kw):
        cn = dc.connect(host, port)
        dc.conns.append(cn)

        class R:
            async def read(self, n=-1):
                return cn.recv(n if n >= 0 else len(cn.pending) - cn.pos)

            def at_eof(self):
                return False

            async def readexactly(self, n):
                out = cn.recv_exactly(n)
                if len(out) < n:
                    raise asyncio.IncompleteReadError(bytes(len(out)), n)
                return out

        class W:
            def write(self, b):
                cn.sendall(b)

            async def drain(self):
                pass

            def close(self):
                cn.close()

            async def wait_closed(self):
                pass

        return R(), W()

    async def wait_for(fut, timeout):
        return await fut

    def spnego_client(username=None, password=None, hostname=None, service=None, protocol=None, context_req=None, **kw):
        dc.client_args = dict(username=username, hostname=hostname, service=service, protocol=protocol, context_req=context_req)
        return dc.new_ctx()

    async def wrap_sync(func, *args):
        return func(*args)

    return dc, [(socket.create_connection, create_connection), (asyncio.open_connection, open_connection), (asyncio.wait_for, wait_for), (spnego.client, spnego_client),
                (rc.AsyncRpcClient._wrap_sync, wrap_sync)]


def _params(tier):
    out = []
    kinds = ["seed", "DH", "ECDH_P256", "ECDH_P384"]
    if tier == "quick":
        out.append(dict(op="unprotect", hash_name="SHA512", reply_kind="seed", sid=1, rk=True, pad=0, digits=5, proto="negotiate"))
        out.append(dict(op="protect", hash_name="SHA256", reply_kind="seed", sid=0, rk=False, pad=4, digits=4, proto="ntlm"))
        out.append(dict(op="protect", hash_name="SHA1", reply_kind="ECDH_P256", sid=2, rk=True, pad=8, digits=3, proto="kerberos"))
        out.append(dict(op="protect", hash_name="SHA384", reply_kind="DH", sid=3, rk=False, pad=12, digits=2, proto="negotiate"))
        out.append(dict(op="protect", hash_name="SHA512", reply_kind="seed", sid=4, rk=True, pad=0, digits=1, proto="kerberos"))
        return out
    for i, h in enumerate(HASHES):
        for j, k in enumerate(kinds):
            out.append(dict(op="protect", hash_name=h, reply_kind=k, sid=(i + j) % 5, rk=bool((i + j) % 2), pad=4 * ((i + j) % 4), digits=1 + (i + 2 * j) % 5, proto=("negotiate", "ntlm", "kerberos")[(i + j) % 3]))
        for s in range(5):
            out.append(dict(op="unprotect", hash_name=h, reply_kind="seed", sid=s, rk=True, pad=4 * ((i + s) % 4), digits=1 + (i + s) % 5, proto=("ntlm", "kerberos", "negotiate")[(i + s) % 3]))
    return out


@harness(P, per_job=True, params=_params, max_steps=6000000, raises=(ScalarOutOfRange,),
         bounds="one online unprotect (blob at a solver-chosen position (L1,L2) of a 3x3 corner of the lattice incl. L2=31 and L1=0, seed-key reply) or protect (DC 'now' at a listed "
         "position; seed-key reply or DH / ECDH_P256 / ECDH_P384 public-key reply; root key id given or not) against the reference DC, run through the sync API and the async API in the same "
         "path; 4 hashes; 5 SID shapes (SD lengths with different residues mod 8); domain name length chosen by the DC so that the sealed reply needs 0 / 4 / 8 / 12 bytes of auth padding; ISD_KEY port symbolic over every 16-bit port with the job's number of decimal digits (1..5; not 135), echoed by the DC as the bind_ack secondary address; 2 authentication legs; auth_protocol negotiate / ntlm / kerberos (the DC expects that provider in every security trailer); an ephemeral EC scalar outside [1, n-1] makes the EC library raise ValueError (allowed)",
         outside="other positions (C02 covers the derivation for every position), other numbers of authentication legs (C15), fragmented replies (C14)",
         must_reach=("the DC saw a conforming conversation", "the request names exactly the key the blob / the caller asked for", "result is correct", "sync and async conduct the same conversation"))
def online(c, op, hash_name, reply_kind, sid, rk, pad, digits, proto):
    port = c.int("isd_key_port", max(1, 10 ** (digits - 1)), min(65535, 10**digits - 1))  # every port with the job's number of decimal digits
    c.assume(port != 135)  # 135 is the endpoint mapper itself
    lo, _ = e2e.window(361, 9, 6, -5, -5)
    sidstr = e2e.SIDS[sid]
    pt = c.bytes("pt", 6)
    holder = {}

    def sw(name):
        return lambda *a, **k: holder["cur"][name](*a, **k)

    async def aopen(*a, **k):
        return await holder["cur"]["open_connection"](*a, **k)

    async def await_for(f, t):
        return await f

    async def wrap_sync(func, *args):
        return func(*args)

    w = e2e.new_world(c, lo, lo, extra=[(socket.create_connection, sw("create_connection")), (asyncio.open_connection, aopen), (asyncio.wait_for, await_for),
                                        (spnego.client, sw("spnego_client")), (rc.AsyncRpcClient._wrap_sync, wrap_sync)])
    root = c.bytes("root", 64)
    script = Script(c)
    now = (361, 9, 6)
    blob = None
    pos = None
    if op == "unprotect":
        l1 = c.concretize(c.int("blob_l1", 0, 2))
        l2 = c.concretize(c.int("blob_l2", 0, 2))
        pos = (361, [0, 5, 31][l1], [0, 17, 31][l2])
        blob = _blob_at(c, w, hash_name, root, sidstr, pos, pt)
    sd_ref = _blob.SIDDescriptor(sidstr).get_target_sd()
    runs = {}
    for flavour in ("sync", "async"):
        dc, stubs = _run(c, w, script, flavour, op, hash_name, root, now, reply_kind, port, blob, pt, sidstr, rk, None, want_pad=pad)
        dc.authn = {"negotiate": 9, "ntlm": 10, "kerberos": 16}[proto]
        holder["cur"] = {"create_connection": stubs[0][1], "open_connection": stubs[1][1], "spnego_client": stubs[3][1]}
        cache = dpapi_ng.KeyCache()
        kw = dict(server="dc01.domain.test", username="user", password="pass", auth_protocol=proto, cache=cache)
        if op == "unprotect":
            if flavour == "sync":
                out = c.call(dpapi_ng.ncrypt_unprotect_secret, blob, **kw)
            else:
                out = c.call_async(dpapi_ng.async_ncrypt_unprotect_secret, blob, **kw)
            ok = seq_eq(out, pt)
        else:
            rkid = e2e.RK if rk else None
            if flavour == "sync":
                out = c.call(dpapi_ng.ncrypt_protect_secret, pt, sidstr, root_key_identifier=rkid, **kw)
            else:
                out = c.call_async(dpapi_ng.async_ncrypt_protect_secret, pt, sidstr, root_key_identifier=rkid, **kw)
            # the blob must name 'now' and decrypt with the seed keys the DC holds
            y = c.call(_blob.DPAPINGBlob.unpack, out)
            oracle = e2e.loaded_cache(c, root, hash_name, secret_algorithm={"seed": "DH"}.get(reply_kind, reply_kind), secret_parameters=dc.secret_params(reply_kind if reply_kind != "seed" else "DH") or None,
                                      private_key_length={"seed": 512, "DH": 512, "ECDH_P256": 256, "ECDH_P384": 384}[reply_kind],
                                      public_key_length={"seed": 2048, "DH": 2048, "ECDH_P256": 256, "ECDH_P384": 384}[reply_kind])
            back = c.call(dpapi_ng.ncrypt_unprotect_secret, out, cache=oracle)
            ok = all_of([seq_eq(back, pt), y.key_identifier.l0 == now[0], y.key_identifier.l1 == now[1], y.key_identifier.l2 == now[2],
                         y.key_identifier.is_public_key == (reply_kind != "seed"), y.key_identifier.domain_name == dc.domain, y.key_identifier.forest_name == "forest.test"])
        c.check(ok, "result is correct")
        c.check(all_of([x[0] if isinstance(x[0], (bool, V.SymBool)) else bool(x[0]) for x in dc.findings] or [True]), "the DC saw a conforming conversation")
        c.check(len(dc.connections) == 2 and dc.connections[0] == ("dc01.domain.test", 135) and dc.connections[1][0] == "dc01.domain.test" and truth(dc.connections[1][1] == port)
                and all(cn.closed for cn in dc.conns), "endpoint mapper on 135 first, then the port it returned; both connections closed")
        c.check(dc.client_args == dict(username="user", hostname="dc01.domain.test", service="host", protocol=proto,
                                       context_req=spnego.ContextReq.default | spnego.ContextReq.dce_style), "security context requested for host/<server> with DCE style")
        (req,) = dc.getkey_requests
        if op == "unprotect":
            want = all_of([seq_eq(req["sd"], sd_ref), req["rkid"] is not None and seq_eq(req["rkid"], e2e.RK.bytes_le), req["l0"] == pos[0], req["l1"] == pos[1], req["l2"] == pos[2]])
        else:
            want = all_of([seq_eq(req["sd"], sd_ref), (req["rkid"] is not None and seq_eq(req["rkid"], e2e.RK.bytes_le)) if rk else req["rkid"] is None,
                           req["l0"] == -1, req["l1"] == -1, req["l2"] == -1])
        c.check(want, "the request names exactly the key the blob / the caller asked for")
        kinds = [b[2] for _, b in dc.sent]
        c.check(kinds == [11, 0, 11, 14, 0], "conversation: bind, ept_map | bind, alter_context, GetKey")
        c.check(dc.reply_pads == [pad], f"the sealed GetKey reply carried {pad} bytes of auth padding (reply length residue exercised)")
        runs[flavour] = dc
    a, b = runs["sync"].sent, runs["async"].sent
    c.check(len(a) == len(b) and all(x[0] == y_[0] for x, y_ in zip(a, b)) and truth(all_of([seq_eq(x[1], y_[1]) for x, y_ in zip(a, b)])),
            "sync and async conduct the same conversation")
    return len(a)

"""valid blob produced symbolically, then altered; shared by C04 and C05"""
from __future__ import annotations

import dpapi_ng
from dpapi_ng import _asn1, _blob, _client, _dns

from symex import values as V

from . import e2e, refs

PT_LEN = 5


class NeedsNetwork(Exception):
    """the library tried to locate / contact a domain controller (cache miss)"""


def _no_network(*a, **k):
    raise NeedsNetwork()


async def _no_network_async(*a, **k):
    raise NeedsNetwork()


def make_blob(c, hash_name="SHA512", layout="envelope", sid=None, concrete=False):
    """-> (world, plaintext symbols, root key symbols, blob bytes (symbolic items inside), template = concrete rendering used to find structure)"""
    lo, _ = e2e.window(361, 31, 31, -7, -7)  # inside interval (361, 31, 31): shortest derivation chain
    w = e2e.new_world(c, lo, lo, concrete=concrete, extra=[(_dns.lookup_dc, _no_network), (_client._sync_get_key, _no_network),
                                                            (_dns.async_lookup_dc, _no_network_async), (_client._async_get_key, _no_network_async)])
    pt = w.fresh("pt", PT_LEN) if concrete else c.bytes("pt", PT_LEN)
    root = w.fresh("root", 64) if concrete else c.bytes("root", 64)
    cache = e2e.loaded_cache(c, root, hash_name)
    blob = c.call(dpapi_ng.ncrypt_protect_secret, pt, sid or e2e.SIDS[1], root_key_identifier=e2e.RK, cache=cache)
    if layout == "trailing":
        blob = c.call(c.call(_blob.DPAPINGBlob.unpack, blob).pack, blob_in_envelope=False)
    return w, pt, root, refs.cat(blob)


_LAYOUT_CACHE = {}


def blob_layout(layout="envelope"):
    """concrete rendering of the blob (zeros for the symbolic octets): total length and the offsets of every TLV identifier / length octet
    and of the first/last content octet of every primitive field"""
    if layout in _LAYOUT_CACHE:
        return _LAYOUT_CACHE[layout]
    from vlib import api

    class Ctx(api.NativeCtx):
        pass

    ctx = Ctx({}, 10_000_000)
    try:
        w, pt, root, blob = make_blob(ctx, layout=layout)
    finally:
        ctx.unpatch()
    data = bytes(blob)
    structural, edges = set(), set()

    def walk(off, end):
        while off < end:
            start = off
            b0 = data[off]
            off += 1
            if b0 & 0x1F == 0x1F:
                while data[off] & 0x80:
                    off += 1
                off += 1
            l0 = data[off]
            off += 1
            if l0 & 0x80:
                k = l0 & 0x7F
                ln = int.from_bytes(data[off : off + k], "big")
                off += k
            else:
                ln = l0
            structural.update(range(start, off))
            if b0 & 0x20:
                walk(off, off + ln)
            elif ln:
                edges.update({off, off + ln - 1})
            off += ln

    # the CMS part; a trailing ciphertext follows it in the LAPS layout
    hdr = _asn1._read_asn1_header(data)
    cms_end = hdr.tag_length + hdr.length
    walk(0, cms_end)
    if cms_end < len(data):
        edges.update({cms_end, len(data) - 1})
    # the key identifier's fixed fields are structure as well (version, magic, flags, L0, L1, L2, root key id, three lengths)
    kid = data.find(b"KDSK") - 4
    structural.update(range(kid, kid + 52))
    res = dict(length=len(data), structural=sorted(structural), edges=sorted(edges - structural), kid=kid, cms_end=cms_end)
    _LAYOUT_CACHE[layout] = res
    return res


def positions(tier, layout="envelope"):
    lay = blob_layout(layout)
    if tier == "thorough":
        return list(range(lay["length"]))
    return sorted(set(lay["structural"]) | set(lay["edges"]))


def alter(c, blob, kind, p):
    """-> altered blob.  kind: byte (symbolic substitution at p) | trunc (keep first p bytes) | delete (remove byte p) | insert (symbolic byte before p)"""
    items = list(V.seq_items(blob))
    if kind == "byte":
        items[p] = c.int("mut", 0, 255)
        kid = blob_layout("envelope")["kid"]
        if kid + 16 <= p < kid + 24:
            # L1 / L2 octets of the key identifier: the derivation loop that follows forks once per value, one after the other; enumerating the
            # 256 values up front yields the same paths but lets the 16 workers share them
            items[p] = c.concretize(items[p])
    elif kind == "byte2":
        items[p[0]] = c.int("mut", 0, 255)
        items[p[1]] = c.int("mut2", 0, 255)
    elif kind == "trunc":
        items = items[:p]
    elif kind == "delete":
        del items[p]
    elif kind == "insert":
        items.insert(p, c.int("mut", 0, 255))
    else:
        raise ValueError(kind)
    return V.SymBytes(items).norm() if c.symbolic else bytes(items)


_CONCRETE = {}


def _concrete_blob(c, layout):
    """the concrete-content blob is the same on every path: build it once per process and re-install the (purely concrete) records of the
    ideal primitives into a fresh world"""
    import copy

    if layout not in _CONCRETE:
        from vlib import api

        ctx = api.NativeCtx({}, 10_000_000)
        try:
            w0, pt, root, blob = make_blob(ctx, layout=layout, concrete=True)
        finally:
            ctx.unpatch()
        _CONCRETE[layout] = (dict(kdf_records=w0.kdf_records, concat_records=w0.concat_records, aead=w0.aead, wraps=w0.wraps, n=w0.n, kdf_new=w0.kdf_new), bytes(pt), bytes(root), bytes(blob))
    snap, pt, root, blob = _CONCRETE[layout]
    lo, _ = e2e.window(361, 31, 31, -7, -7)
    w = e2e.new_world(c, lo, lo, concrete=True, extra=[(_dns.lookup_dc, _no_network), (_client._sync_get_key, _no_network),
                                                        (_dns.async_lookup_dc, _no_network_async), (_client._async_get_key, _no_network_async)])
    w.kdf_records = {k: list(v) for k, v in snap["kdf_records"].items()}
    w.concat_records = {k: list(v) for k, v in snap["concat_records"].items()}
    w.aead, w.wraps, w.n, w.kdf_new = list(snap["aead"]), list(snap["wraps"]), snap["n"], snap["kdf_new"]
    return w, pt, root, blob


def unprotect_altered(c, kind, p, layout="envelope", flavour="sync", concrete=False):
    w, pt, root, blob = _concrete_blob(c, layout) if concrete else make_blob(c, layout=layout, concrete=concrete)
    bad = alter(c, blob, kind, p)
    cache2 = e2e.loaded_cache(c, root, "SHA512")
    if flavour == "sync":
        out = c.call(dpapi_ng.ncrypt_unprotect_secret, bad, cache=cache2)
    else:
        out = c.call_async(dpapi_ng.async_ncrypt_unprotect_secret, bad, cache=cache2)
    return w, pt, out

"""C20 - DC discovery asks the right SRV name and picks the best record."""
from __future__ import annotations

import dns.asyncresolver
import dns.resolver
from dpapi_ng import _dns

from vlib.api import all_of, any_of, harness, implies

META = dict(assumptions=["dns.resolver.resolve / dns.asyncresolver.resolve are replaced by a stub that records (name, rdtype, kwargs) and returns the scripted records"])
P = "C20"


class Rec:
    def __init__(self, target, port, weight, priority):
        self.target, self.port, self.weight, self.priority = target, port, weight, priority


def Name(s):
    """a real dns.name.Name (relative when the text has no trailing dot), so that every way of rendering it that dnspython offers (str, to_text,
    to_unicode, labels) behaves as it does on a resolver's answer"""
    import dns.name

    return dns.name.from_text(s, origin=None)


def _records(c, n, dots, names="distinct"):
    """names: 'distinct' hosts; 'same' = one host listed n times (e.g. two SRV records for one DC); 'case' = the same host spelled with different case;
    'idna' = hosts with punycode (xn--) labels, which must come back as they are on the wire"""
    recs = []
    for i in range(n):
        dot = (dots >> i) & 1
        host = {"distinct": f"dc{i}.example.com", "same": "dc0.example.com", "case": ("dc0.example.com", "DC0.example.com", "Dc0.Example.Com", "dC0.EXAMPLE.com", "dc0.example.COM")[i],
                "idna": f"xn--dc{i}-sna.xn--bcher-kva.example"}[names]
        recs.append(Rec(Name(host + ("." if dot else "")), c.int(f"port{i}", 0, 65535), c.int(f"w{i}", 0, 65535), c.int(f"p{i}", 0, 65535)))
    return recs


def _oracle(c, recs, r, tag):
    c.check(all_of([r.priority <= x.priority for x in recs]), f"{tag}: lowest priority")
    c.check(all_of([implies(x.priority == r.priority, r.weight >= x.weight) for x in recs]), f"{tag}: highest weight among lowest priority")
    c.check(any_of([all_of([r.target == str(x.target).rstrip("."), r.port == x.port, r.weight == x.weight, r.priority == x.priority]) for x in recs]),
            f"{tag}: one input record, port/weight/priority unchanged, trailing dot stripped")
    c.check(not r.target.endswith("."), f"{tag}: no trailing dot")


def _params(tier):
    out = []
    for n in ([1, 2, 3, 4] if tier == "quick" else [1, 2, 3, 4, 5]):
        for dots in sorted({0, (1 << n) - 1, 0b0101010 & ((1 << n) - 1), 0b1010101 & ((1 << n) - 1)}):
            out.append(dict(n=n, dots=dots, names="distinct"))
    for n in ([2, 3] if tier == "quick" else [2, 3, 4]):
        for names in ("same", "case"):
            for dots in sorted({0, 0b0101010 & ((1 << n) - 1), 0b1010101 & ((1 << n) - 1)}):
                out.append(dict(n=n, dots=dots, names=names))
    for n in (1, 2):
        out.append(dict(n=n, dots=0b01, names="idna"))
    return out


@harness(P, params=_params, bounds="1..4 (quick) / 1..5 (thorough) SRV records in any order with symbolic priority, weight, port in [0,65535]; trailing-dot patterns "
         "{none, all, alternating, inverse alternating}; hosts all distinct, or one host listed 2..3 (thorough 4) times with the same / with differing spelling (case, trailing dot); 1..2 hosts with punycode labels; targets are real dns.name.Name objects", outside="more than 5 records; other dot patterns (the dot is stripped per record before sorting)",
         must_reach=("pick: lowest priority", "pick: one input record, port/weight/priority unchanged, trailing dot stripped"))
def pick(c, n, dots, names):
    recs = _records(c, n, dots, names)
    r = c.call(_dns._get_highest_answer, recs)
    _oracle(c, recs, r, "pick")
    return (r.target, r.port, r.weight, r.priority)


@harness(P, params=[dict(domain=d) for d in (None, "", "domain.test", "a", "sub.corp.example.com.")],
         bounds="lookup_dc and async_lookup_dc with domain in {None, '', 'domain.test', 'a', 'sub.corp.example.com.'} and 2 symbolic records",
         outside="other domain strings (the name is built by one f-string)", must_reach=("query: name", "sync == async"))
def query(c, domain):
    seen = []
    recs = _records(c, 2, 0b01)

    def resolve(qname, rdtype, *a, **kw):
        seen.append((qname, rdtype, a, dict(kw)))
        return recs

    async def aresolve(qname, rdtype, *a, **kw):
        seen.append((qname, rdtype, a, dict(kw)))
        return recs

    c.stubs([(dns.resolver.resolve, resolve), (dns.asyncresolver.resolve, aresolve)])
    r1 = c.call(_dns.lookup_dc, domain)
    r2 = c.call_async(_dns.async_lookup_dc, domain)
    want = "_ldap._tcp.dc._msdcs" + (f".{domain}" if domain else "")
    c.check(len(seen) == 2 and all(s[0] == want for s in seen), "query: name")
    c.check(all(s[1] == "SRV" and s[2] == () and s[3] == {"search": True} for s in seen), "query: SRV with search list")
    _oracle(c, recs, r1, "lookup")
    c.check(all_of([r1.target == r2.target, r1.port == r2.port, r1.weight == r2.weight, r1.priority == r2.priority]), "sync == async")
    return (r1.target, r1.port, r1.weight, r1.priority)


@harness(P, per_job=True, params=[dict(op=o, flavour=f, domain=d) for o in ("unprotect", "protect") for f in ("sync", "async")
                                  for d in (("d.test",) if o == "unprotect" else ("child.corp.test", None))],
         max_steps=3000000,
         bounds="use of the lookup result by the four public functions when no server is given and the cache does not cover the request: unprotect of a blob whose key identifier "
         "names domain 'd.test' and a different forest 'f.test'; protect with domain_name 'child.corp.test' / None; lookup and GetKey replaced by recording stubs (the GetKey stub is the "
         "conforming DC of C10); symbolic plaintext and root key", outside="the conversation with the DC itself (C17)",
         must_reach=("use site: looked up the blob's / the caller's domain once", "use site: GetKey sent to the looked-up target"))
def use_site(c, op, flavour, domain):
    import dpapi_ng
    from dpapi_ng import _blob, _client

    from . import e2e
    from .c10 import DC, _blob_at
    from .world import seq_eq

    lo, _ = e2e.window(361, 9, 6, -5, -5)
    looked, asked, holder = [], [], {}
    port, weight, prio = c.int("port", 0, 65535), c.int("weight", 0, 65535), c.int("prio", 0, 65535)

    def lookup(name=None):
        looked.append(name)
        return _dns.SrvRecord("dc7.child.corp.test", port, weight, prio)

    async def alookup(name=None):
        return lookup(name)

    def get_key(server, *a, **k):
        asked.append(server)
        return holder["dc"].get_key(server, *a, **k)

    async def aget_key(server, *a, **k):
        return get_key(server, *a, **k)

    w = e2e.new_world(c, lo, lo, extra=[(_dns.lookup_dc, lookup), (_dns.async_lookup_dc, alookup), (_client._sync_get_key, get_key), (_client._async_get_key, aget_key)])
    root = c.bytes("root", 64)
    holder["dc"] = DC(c, w, "SHA256", root, (361, 9, 6))
    pt = c.bytes("pt", 4)
    if op == "unprotect":
        blob = _blob_at(c, w, "SHA256", root, e2e.SIDS[0], (361, 9, 4), pt)
        y = c.call(_blob.DPAPINGBlob.unpack, blob)
        c.check(y.key_identifier.domain_name == "d.test" and y.key_identifier.forest_name == "f.test", "use site: the blob names a domain and a different forest")
        if flavour == "sync":
            out = c.call(dpapi_ng.ncrypt_unprotect_secret, blob)
        else:
            out = c.call_async(dpapi_ng.async_ncrypt_unprotect_secret, blob)
        c.check(seq_eq(out, pt), "use site: result")
        want = "d.test"
    else:
        if flavour == "sync":
            out = c.call(dpapi_ng.ncrypt_protect_secret, pt, e2e.SIDS[0], domain_name=domain)
        else:
            out = c.call_async(dpapi_ng.async_ncrypt_protect_secret, pt, e2e.SIDS[0], domain_name=domain)
        want = domain
    c.check(looked == [want], "use site: looked up the blob's / the caller's domain once")
    c.check(asked == ["dc7.child.corp.test"], "use site: GetKey sent to the looked-up target")
    return True


@harness(P, per_job=True, params=[dict(domain=d, exc=e) for d in ("domain.test", None) for e in ("NXDOMAIN", "NoAnswer", "LifetimeTimeout")], raises=(Exception,),
         bounds="the resolver fails the one query (NXDOMAIN / NoAnswer / timeout), for a given domain and for none: the lookup fails too, after exactly one query for the prescribed name "
         "(no other name is tried in its place); sync and async", must_reach=("failed lookup: exactly the prescribed query",))
def query_failure(c, domain, exc):
    import dns.exception

    seen = []
    err = {"NXDOMAIN": dns.resolver.NXDOMAIN, "NoAnswer": dns.resolver.NoAnswer, "LifetimeTimeout": getattr(dns.resolver, "LifetimeTimeout", dns.exception.Timeout)}[exc]

    def resolve(qname, rdtype, *a, **kw):
        seen.append(qname)
        raise err()

    async def aresolve(qname, rdtype, *a, **kw):
        seen.append(qname)
        raise err()

    c.stubs([(dns.resolver.resolve, resolve), (dns.asyncresolver.resolve, aresolve)])
    want = "_ldap._tcp.dc._msdcs" + (f".{domain}" if domain else "")
    outcomes = []
    for fl in ("sync", "async"):
        try:
            if fl == "sync":
                c.call(_dns.lookup_dc, domain)
            else:
                c.call_async(_dns.async_lookup_dc, domain)
            outcomes.append("returned")
        except Exception as e:
            outcomes.append(type(e).__name__)
    c.check(seen == [want, want] and outcomes == [err.__name__, err.__name__], "failed lookup: exactly the prescribed query")
    return True

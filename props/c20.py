"""C20 - DC discovery asks the right SRV name and picks the best record."""
from __future__ import annotations

import dns.asyncresolver
import dns.resolver
from dpapi_ng import _dns

from vlib.api import all_of, any_of, harness, implies

META = dict(assumptions=["dns.resolver.resolve / dns.asyncresolver.resolve are replaced by a stub that records (name, rdtype, kwargs) and returns the scripted records"])
P = "C20"


class Rec:
    def __init__(self, target, port, weight, priority):
        self.target, self.port, self.weight, self.priority = target, port, weight, priority


class Name:
    """dns.name.Name stand-in: str() gives the textual name"""

    def __init__(self, s):
        self.s = s

    def __str__(self):
        return self.s


def _records(c, n, dots):
    recs = []
    for i in range(n):
        dot = (dots >> i) & 1
        recs.append(Rec(Name(f"dc{i}.example.com" + ("." if dot else "")), c.int(f"port{i}", 0, 65535), c.int(f"w{i}", 0, 65535), c.int(f"p{i}", 0, 65535)))
    return recs


def _oracle(c, recs, r, tag):
    c.check(all_of([r.priority <= x.priority for x in recs]), f"{tag}: lowest priority")
    c.check(all_of([implies(x.priority == r.priority, r.weight >= x.weight) for x in recs]), f"{tag}: highest weight among lowest priority")
    c.check(any_of([all_of([r.target == str(x.target).rstrip("."), r.port == x.port, r.weight == x.weight, r.priority == x.priority]) for x in recs]),
            f"{tag}: one input record, port/weight/priority unchanged, trailing dot stripped")
    c.check(not r.target.endswith("."), f"{tag}: no trailing dot")


def _params(tier):
    out = []
    for n in ([1, 2, 3, 4] if tier == "quick" else [1, 2, 3, 4, 5]):
        for dots in sorted({0, (1 << n) - 1, 0b0101010 & ((1 << n) - 1), 0b1010101 & ((1 << n) - 1)}):
            out.append(dict(n=n, dots=dots))
    return out


@harness(P, params=_params, bounds="1..4 (quick) / 1..5 (thorough) SRV records in any order with symbolic priority, weight, port in [0,65535]; trailing-dot patterns "
         "{none, all, alternating, inverse alternating}", outside="more than 5 records; other dot patterns (the dot is stripped per record before sorting)",
         must_reach=("pick: lowest priority", "pick: one input record, port/weight/priority unchanged, trailing dot stripped"))
def pick(c, n, dots):
    recs = _records(c, n, dots)
    r = c.call(_dns._get_highest_answer, recs)
    _oracle(c, recs, r, "pick")
    return (r.target, r.port, r.weight, r.priority)


@harness(P, params=[dict(domain=d) for d in (None, "", "domain.test", "a", "sub.corp.example.com.")],
         bounds="lookup_dc and async_lookup_dc with domain in {None, '', 'domain.test', 'a', 'sub.corp.example.com.'} and 2 symbolic records",
         outside="other domain strings (the name is built by one f-string)", must_reach=("query: name", "sync == async"))
def query(c, domain):
    seen = []
    recs = _records(c, 2, 0b01)

    def resolve(qname, rdtype, *a, **kw):
        seen.append((qname, rdtype, a, dict(kw)))
        return recs

    async def aresolve(qname, rdtype, *a, **kw):
        seen.append((qname, rdtype, a, dict(kw)))
        return recs

    c.stubs([(dns.resolver.resolve, resolve), (dns.asyncresolver.resolve, aresolve)])
    r1 = c.call(_dns.lookup_dc, domain)
    r2 = c.call_async(_dns.async_lookup_dc, domain)
    want = "_ldap._tcp.dc._msdcs" + (f".{domain}" if domain else "")
    c.check(len(seen) == 2 and all(s[0] == want for s in seen), "query: name")
    c.check(all(s[1] == "SRV" and s[2] == () and s[3] == {"search": True} for s in seen), "query: SRV with search list")
    _oracle(c, recs, r1, "lookup")
    c.check(all_of([r1.target == r2.target, r1.port == r2.port, r1.weight == r2.weight, r1.priority == r2.priority]), "sync == async")
    return (r1.target, r1.port, r1.weight, r1.priority)

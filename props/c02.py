"""C02 - derived group keys equal the MS-GKDI chain from any covering seed material; error when not covered."""
from __future__ import annotations

import uuid

from cryptography.hazmat.primitives import hashes
from dpapi_ng import _client, _crypto, _gkdi

from symex import values as V
from vlib.api import all_of, any_of, harness, neg, truth

META = dict(assumptions=[
    "chain-step KDF stub: a kdf() call is a legal MS-GKDI derivation step iff its label is 'KDS service\\0' (UTF-16-LE), its length is 64, its "
    "hash is the envelope's and its context equals the spec context of that step; any other call yields Garbage. Under collision-freeness of "
    "the real KDF a derived key equals the spec key iff it is the same chain element.",
    "envelope shapes are those MS-GKDI 2.2.4 allows for the envelope's own position",
])

P = "C02"
HASHES = {"SHA1": hashes.SHA1, "SHA256": hashes.SHA256, "SHA384": hashes.SHA384, "SHA512": hashes.SHA512}


class Key:
    """abstract element of the derivation chain: Root, L0 (L0 seed), L1(j), L2(j,k), G (garbage)"""

    def __init__(self, kind, j=None, k=None):
        self.kind, self.j, self.k = kind, j, k

    def __len__(self):
        return 64

    def __bool__(self):
        return True

    def __repr__(self):
        return f"Key({self.kind},{self.j},{self.k})"


def make_kdf(c, rkid, L0, sd, hash_name, log):
    def i32(items):
        if c.symbolic:
            return V.int_from_bytes(V.SymBytes(items), "little", signed=True)
        return int.from_bytes(bytes(items), "little", signed=True)

    def kdf_stub(algorithm, secret, label, context, length):
        n = c.count("kdf")
        log.append(secret)
        if bytes(label) != "KDS service\0".encode("utf-16-le") or length != 64 or algorithm.name != hash_name.lower():
            return Key("G")
        ctx = V.seq_items(context) if c.symbolic else list(context)
        if len(ctx) < 28 or not isinstance(secret, Key) or secret.kind == "G":
            return Key("G")
        same_rk = (V.SymBytes(ctx[:16]).norm() == rkid) if c.symbolic else (bytes(ctx[:16]) == rkid)
        l0, l1, l2 = i32(ctx[16:20]), i32(ctx[20:24]), i32(ctx[24:28])
        rest = ctx[28:]
        if not truth(same_rk) or not truth(l0 == L0):
            return Key("G")
        if secret.kind == "Root":
            return Key("L0") if not rest and truth(all_of([l1 == -1, l2 == -1])) else Key("G")
        if secret.kind == "L0":
            ok_sd = (V.SymBytes(rest).norm() == sd) if c.symbolic else (bytes(rest) == sd)
            return Key("L1", 31) if truth(all_of([l1 == 31, l2 == -1])) and truth(ok_sd) else Key("G")
        if rest:
            return Key("G")
        if secret.kind == "L1":
            if truth(l2 == -1):
                return Key("L1", l1) if truth(all_of([l1 == secret.j - 1, l1 >= 0])) else Key("G")
            return Key("L2", l1, l2) if truth(all_of([l1 == secret.j, l2 == 31])) else Key("G")
        if secret.kind == "L2":
            return Key("L2", l1, l2) if truth(all_of([l1 == secret.j, l2 == secret.k - 1, l2 >= 0])) else Key("G")
        return Key("G")

    return kdf_stub


def _envelope(c, L0, rkid, hash_name, L1, L2, l1k, l2k):
    return _gkdi.GroupKeyEnvelope(version=1, flags=2, l0=L0, l1=L1, l2=L2, root_key_identifier=rkid, kdf_algorithm="SP800_108_CTR_HMAC",
                                  kdf_parameters=_gkdi.KDFParameters(hash_name).pack(), secret_algorithm="DH", secret_parameters=b"",
                                  private_key_length=512, public_key_length=2048, domain_name="", forest_name="", l1_key=l1k, l2_key=l2k)


def _shape(c, L1, L2, l2present):
    """keys MS-GKDI 2.2.4 prescribes for an envelope at (L1, L2)"""
    if truth(L2 == 31):
        l1k = Key("L1", L1)
        l2k = Key("L2", L1, L2) if truth(l2present) else b""
    else:
        l1k = Key("L1", L1 - 1) if truth(L1 > 0) else b""
        l2k = Key("L2", L1, L2)
    return l1k, l2k


class FakeUUID:
    """uuid whose bytes_le are the harness's (symbolic) 16 bytes"""

    def __init__(self, b):
        self.bytes_le = b

    def __bool__(self):
        return True


def _setup(c, hash_name):
    rk_bytes = c.bytes("rkid", 16)
    rkid = FakeUUID(rk_bytes)
    L0 = c.int("L0", 0, (1 << 31) - 1)
    log = []
    sd = c.bytes("sd", 12)
    c.stubs([(_crypto.kdf, make_kdf(c, rk_bytes, L0, sd, hash_name, log))])
    return rkid, L0, sd, log


@harness(P, params=lambda tier: [dict(hash_name=h) for h in (["SHA512"] if tier == "quick" else HASHES)],
         bounds="envelope position (L1',L2') and requested position (L1,L2): every point of [0,31]^4 with (L1',L2') >= (L1,L2); L0 in [0,2^31); root key id 16 "
         "symbolic bytes; optional L2 key at L2'=31 present/absent; L1 key absent at L1'=0; 4 KDF hashes",
         outside="envelopes whose shape MS-GKDI 2.2.4 does not allow; KDF collisions; L0 >= 2^31",
         must_reach=("result is the spec key L2(L1,L2)",), max_steps=40000)
def chain_cover(c, hash_name):
    rkid, L0, sd, log = _setup(c, hash_name)
    L1, L2 = c.int("envL1", 0, 31), c.int("envL2", 0, 31)
    r1, r2 = c.int("reqL1", 0, 31), c.int("reqL2", 0, 31)
    l2present = c.bool("l2present")
    c.assume(any_of([L1 > r1, all_of([L1 == r1, L2 >= r2])]))
    l1k, l2k = _shape(c, L1, L2, l2present)
    rk = _envelope(c, L0, rkid, hash_name, L1, L2, l1k, l2k)
    res = c.call(_gkdi.compute_l2_key, HASHES[hash_name](), r1, r2, rk)
    ok = isinstance(res, Key) and res.kind == "L2"
    c.check(all_of([res.j == r1, res.k == r2]) if ok else False, "result is the spec key L2(L1,L2)")
    c.check(c.counter("kdf") <= 64, "at most 64 KDF steps")
    return c.counter("kdf")


@harness(P, params=[dict(hash_name="SHA512", wide=False), dict(hash_name="SHA256", wide=True)], raises=(ValueError,), budget_violation=True, max_steps=6000,
         native_step_limit=60000,
         bounds="envelope position in [0,31]^2 (spec shape), requested (L1,L2) in [0,31]^2 not covered by it (wide=False) or anywhere in [0,2^32)^2 with at least "
         "one index > 31 (wide=True): the call must raise ValueError within the step budget (6000 interpreted statements, > 64 KDF steps never)",
         outside="negative requested indices", must_reach=())
def chain_noncover(c, hash_name, wide):
    rkid, L0, sd, log = _setup(c, hash_name)
    L1, L2 = c.int("envL1", 0, 31), c.int("envL2", 0, 31)
    hi = (1 << 32) - 1 if wide else 31
    r1, r2 = c.int("reqL1", 0, hi), c.int("reqL2", 0, hi)
    l2present = c.bool("l2present")
    covered = any_of([L1 > r1, all_of([L1 == r1, L2 >= r2])])
    if wide:
        c.assume(any_of([r1 > 31, r2 > 31]))
    else:
        c.assume(neg(covered))
    l1k, l2k = _shape(c, L1, L2, l2present)
    rk = _envelope(c, L0, rkid, hash_name, L1, L2, l1k, l2k)
    res = c.call(_gkdi.compute_l2_key, HASHES[hash_name](), r1, r2, rk)
    c.check(False, "a key was returned for a position the seed material does not cover")
    return repr(res)


NOWS = [None, (9, 6), (31, 31), (0, 0), (31, 0), (5, 31)]


@harness(P, params=lambda tier: [dict(hash_name=h, L0v=v, now=NOWS[(i + j) % len(NOWS)]) for i, h in enumerate(HASHES) for j, v in enumerate((0, 361, (1 << 31) - 1))] +
         [dict(hash_name="SHA512", L0v=361, now=n) for n in NOWS[1:]] if tier == "thorough" else
         [dict(hash_name="SHA256", L0v=361, now=None), dict(hash_name="SHA1", L0v=(1 << 31) - 1, now=None), dict(hash_name="SHA384", L0v=361, now=(9, 6)),
          dict(hash_name="SHA512", L0v=5, now=(31, 31))],
         bounds="root-key route: KeyCache.load_key(root) then KeyCache._get_key(sd, rkid, L0, l1, l2) for every (l1,l2) in [0,31]^2 and L0 in {0, 361, 2^31-1} (dictionary key, listed), then "
         "GroupKeyEnvelope.get_kek in nonce mode: the key fed to the final KDF is the spec key L2(l1,l2) derived with the root key's hash; with now=(L1n,L2n) the same "
         "cache has first served a protect at that (listed) position of the same L0 - _get_protection_gke_from_cache then _store_key, as the protect functions do",
         outside="L0 >= 2^31 (refused, see C05)", must_reach=("root route: kek derived from spec key",), max_steps=60000)
def root_route(c, hash_name, L0v, now):
    import time

    from dpapi_ng._blob import KeyIdentifier

    from . import e2e

    rk_bytes = c.bytes("rkid", 16)
    L0 = L0v  # KeyCache uses L0 as a dictionary key: listed values
    sd = b"target-sd-12"  # dictionary key as well
    log = []
    inner = make_kdf(c, rk_bytes, L0, sd, hash_name, log)
    final = {}

    def kdf_stub(algorithm, secret, label, context, length):
        if length == 32:
            final["secret"], final["alg"], final["context"], final["label"] = secret, algorithm.name, context, bytes(label)
            return b"K" * 32
        return inner(algorithm, secret, label, context, length)

    tns = e2e.ns_of_filetime(L0 * e2e.L0_TICKS + now[0] * 32 * e2e.B + now[1] * e2e.B + 12345) if now else None
    c.stubs([(_crypto.kdf, kdf_stub)] + ([(time.time_ns, lambda: tns)] if now else []))
    # concrete uuid object as dictionary key; its bytes_le are the symbolic bytes (the code only ever reads .bytes_le)
    key_obj = FakeUUID(rk_bytes)
    cache = _client.KeyCache()
    c.call(cache.load_key, Key("Root"), key_obj, kdf_parameters=_gkdi.KDFParameters(hash_name).pack())
    if now:
        # an earlier protect on the same cache (what ncrypt_protect_secret does with a cache hit)
        gke = c.call(_client._get_protection_gke_from_cache, key_obj, sd, cache)
        g = gke.l2_key if gke is not None else None
        c.check(isinstance(g, Key) and g.kind == "L2" and (gke.l0, g.j, g.k) == (L0, now[0], now[1]) and (gke.l1, gke.l2) == now, "root route: protect derives the spec key of 'now'")
        c.call(cache._store_key, sd, gke)
    l1, l2 = c.int("l1", 0, 31), c.int("l2", 0, 31)
    l0c = L0
    env = c.call(cache._get_key, sd, key_obj, l0c, l1, l2)
    c.check(env is not None, "root route: envelope produced")
    kid = KeyIdentifier(version=1, flags=0, l0=l0c, l1=l1, l2=l2, root_key_identifier=key_obj, key_info=b"N" * 32, domain_name="", forest_name="")
    kek = c.call(env.get_kek, kid)
    s = final.get("secret")
    ok = isinstance(s, Key) and s.kind == "L2"
    c.check(all_of([s.j == l1, s.k == l2, final["alg"] == hash_name.lower(), final["label"] == "KDS service\0".encode("utf-16-le"),
                    bytes(final["context"]) == b"N" * 32]) if ok else False, "root route: kek derived from spec key")
    return c.counter("kdf")

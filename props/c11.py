"""C11 - MS-GKDI structures and GetKey stubs have exactly the specified byte layout."""
from __future__ import annotations

import uuid

from dpapi_ng import _blob, _gkdi

from symex import values as V
from symex.interp import SymUUID
from vlib.api import all_of, harness, struct_eq

from . import refs
from .world import seq_eq

META = dict(assumptions=["reference encoders in props/refs.py (written from MS-GKDI 2.2 and the NDR64 transfer syntax) are the oracle; the pointer referent value 0x00020000 is a convention shared with the code"])
P = "C11"
NAMES = ["", "a", "domain.test", "dépôt.中文", "x\U0001F600y", "\ufeffab.test", "\ufffe", "a\ufeff", "a\u0100.test", "x\U00010000y", "\u0100"]  # incl. names that begin with / contain a byte-order mark
U32 = (1 << 32) - 1


def U(c, name):
    b = c.bytes(name, 16)
    return (SymUUID(bytes_le=b) if c.symbolic else uuid.UUID(bytes_le=b)), b


def _lens(tier, small=False):
    return ([0, 1, 7, 8, 9, 17] if tier == "quick" else list(range(0, 18)) + [63, 64, 65]) if not small else [0, 1, 2, 3]


def _gke_params(tier):
    out = []
    lens = _lens(tier)
    for i in range(max(len(lens), len(NAMES))):
        n = lens[i % len(lens)]
        out.append(dict(n1=n, n2=lens[(i + 1) % len(lens)], n3=lens[(i + 2) % len(lens)], n4=lens[(i + 3) % len(lens)], dom=NAMES[i % len(NAMES)], forest=NAMES[(i + 2) % len(NAMES)]))
    return out


@harness(P, per_job=True, params=_gke_params, bounds="group key envelope: version, flags, L0, L1, L2, private/public key length symbolic in [0,2^32); root key id symbolic; kdf/secret parameters, L1 key, L2 key of "
         "listed lengths (0..17 incl. odd, +63..65 thorough) with symbolic content; domain/forest names from {empty, ASCII, BMP, non-BMP, beginning with U+FEFF / U+FFFE, containing U+FEFF}",
         outside="byte-field lengths not listed; other names", must_reach=("gke: bytes equal the MS-GKDI 2.2.4 reference", "gke: decode(encode(x)) == x"))
def gke(c, n1, n2, n3, n4, dom, forest):
    ints = {k: c.int(k, 0, U32) for k in ("version", "flags", "l0", "l1", "l2", "priv", "pub")}
    rk, rkb = U(c, "rkid")
    kp, sp, k1, k2 = c.bytes("kdfpar", n1), c.bytes("secpar", n2), c.bytes("l1key", n3), c.bytes("l2key", n4)
    x = _gkdi.GroupKeyEnvelope(ints["version"], ints["flags"], ints["l0"], ints["l1"], ints["l2"], rk, "SP800_108_CTR_HMAC", kp, "ECDH_P256", sp, ints["priv"], ints["pub"],
                               dom, forest, k1, k2)
    b = c.call(x.pack)
    ref = refs.ref_group_key_envelope(ints["version"], ints["flags"], ints["l0"], ints["l1"], ints["l2"], rkb, "SP800_108_CTR_HMAC", kp, "ECDH_P256", sp, ints["priv"],
                                      ints["pub"], dom, forest, k1, k2)
    c.check(seq_eq(b, ref), "gke: bytes equal the MS-GKDI 2.2.4 reference")
    y = c.call(_gkdi.GroupKeyEnvelope.unpack, b)
    c.check(all_of([struct_eq(y, x), seq_eq(c.call(y.pack), b)]), "gke: decode(encode(x)) == x")
    return len(b)


@harness(P, per_job=True, params=lambda tier: [dict(n=n, dom=NAMES[i % len(NAMES)], forest=NAMES[(i + 3) % len(NAMES)]) for i, n in enumerate(_lens(tier) + [32, 36])],
         bounds="key identifier: all integer fields symbolic in [0,2^32), root key id symbolic, key_info of listed lengths with symbolic content, listed names",
         must_reach=("keyid: bytes equal reference", "keyid: decode(encode(x)) == x"))
def keyid(c, n, dom, forest):
    ints = {k: c.int(k, 0, U32) for k in ("version", "flags", "l0", "l1", "l2")}
    rk, rkb = U(c, "rkid")
    ki = c.bytes("keyinfo", n)
    x = _blob.KeyIdentifier(ints["version"], ints["flags"], ints["l0"], ints["l1"], ints["l2"], rk, ki, dom, forest)
    b = c.call(x.pack)
    c.check(seq_eq(b, refs.ref_key_identifier(ints["version"], ints["flags"], ints["l0"], ints["l1"], ints["l2"], rkb, ki, dom, forest)), "keyid: bytes equal reference")
    y = c.call(_blob.KeyIdentifier.unpack, b)
    c.check(all_of([struct_eq(y, x), seq_eq(c.call(y.pack), b)]), "keyid: decode(encode(x)) == x")
    return len(b)


@harness(P, params=[dict(name=n) for n in ("SHA1", "SHA256", "SHA384", "SHA512", "", "X", "\ufeffSHA1", "\ufffeX")], bounds="KDF parameters for the 4 hash names and two other names", must_reach=("kdf parameters",))
def kdfpar(c, name):
    x = _gkdi.KDFParameters(name)
    b = c.call(x.pack)
    y = c.call(_gkdi.KDFParameters.unpack, b)
    c.check(all_of([seq_eq(b, refs.ref_kdf_parameters(name)), y.hash_name == name]), "kdf parameters")
    return len(b)


def _kl(tier):
    return [1, 2, 3, 4, 32, 48] if tier == "quick" else [1, 2, 3, 4, 5, 8, 32, 48, 66, 128, 256]


@harness(P, per_job=True, params=lambda tier: [dict(kl=k) for k in _kl(tier)], bounds="FFC DH parameters / FFC DH key / ECDH key with key_length in {1,2,3,4,32,48} (+{5,8,66,128,256} thorough) and every integer symbolic in "
         "[0, 2^(8*key_length)) - i.e. including every value with leading zero bytes; curves P256/P384/P521", outside="other key lengths",
         must_reach=("ffc dh parameters", "ffc dh key", "ecdh key"))
def dhkeys(c, kl):
    top = (1 << (8 * kl)) - 1
    p, g, y, ex, ey = (c.int(n, 0, top) for n in ("p", "g", "y", "ex", "ey"))
    x = _gkdi.FFCDHParameters(kl, p, g)
    b = c.call(x.pack)
    z = c.call(_gkdi.FFCDHParameters.unpack, b)
    c.check(all_of([seq_eq(b, refs.ref_ffcdh_parameters(kl, p, g)), struct_eq(z, x), len(b) == 12 + 2 * kl]), "ffc dh parameters")
    x = _gkdi.FFCDHKey(kl, p, g, y)
    b = c.call(x.pack)
    z = c.call(_gkdi.FFCDHKey.unpack, b)
    c.check(all_of([seq_eq(b, refs.ref_ffcdh_key(kl, p, g, y)), struct_eq(z, x), len(b) == 8 + 3 * kl]), "ffc dh key")
    for curve in ("P256", "P384", "P521"):
        x = _gkdi.ECDHKey(curve, kl, ex, ey)
        b = c.call(x.pack)
        z = c.call(_gkdi.ECDHKey.unpack, b)
        c.check(all_of([seq_eq(b, refs.ref_ecdh_key(curve, kl, ex, ey)), struct_eq(z, x), len(b) == 8 + 2 * kl]), "ecdh key")
    return kl


@harness(P, per_job=True, params=lambda tier: [dict(n=n, rk=bool(i % 2)) for i, n in enumerate(_lens(tier))] + [dict(n=8, rk=False), dict(n=9, rk=True)],
         bounds="GetKey request stub: target SD of listed lengths (every residue mod 8) with symbolic content, root key id present/absent (symbolic), L0/L1/L2 symbolic signed 32-bit",
         outside="SD lengths not listed", must_reach=("getkey: NDR64 request stub", "getkey: decode(encode(x)) == x"))
def getkey_request(c, n, rk):
    sd = c.bytes("sd", n)
    l0, l1, l2 = (c.int(k, -(1 << 31), (1 << 31) - 1) for k in ("l0", "l1", "l2"))
    rku, rkb = U(c, "rkid") if rk else (None, None)
    if rk:  # the nil GUID object is falsy-free here, but an all-zero referent+GUID cannot be told apart from a null pointer only through the referent
        pass
    x = _gkdi.GetKey(sd, rku, l0, l1, l2)
    b = c.call(x.pack)
    c.check(seq_eq(b, refs.ref_getkey_request(sd, rkb, l0, l1, l2)), "getkey: NDR64 request stub")
    y = c.call(_gkdi.GetKey.unpack, b)
    c.check(all_of([struct_eq(y, x), seq_eq(c.call(y.pack), b)]), "getkey: decode(encode(x)) == x")
    return len(b)


@harness(P, params=lambda tier: [dict(n=n) for n in (range(0, 8) if tier == "quick" else range(0, 18))], raises=(),
         bounds="GetKey response: envelope whose length takes every residue mod 8 (L2 key of 0..7 / 0..17 symbolic bytes), HRESULT symbolic: the envelope is extracted iff HRESULT == 0, "
         "else ValueError", must_reach=("getkey: response decoded", "getkey: failure HRESULT raises"))
def getkey_response(c, n):
    ints = {k: c.int(k, 0, U32) for k in ("version", "flags", "l0", "l1", "l2")}
    rk, rkb = U(c, "rkid")
    k2 = c.bytes("l2key", n)
    env = refs.ref_group_key_envelope(ints["version"], ints["flags"], ints["l0"], ints["l1"], ints["l2"], rkb, "SP800_108_CTR_HMAC", b"P" * 30, "DH", b"", 512, 2048, "d.t", "f.t", b"", k2)
    hr = c.int("hresult", 0, U32)
    data = refs.ref_getkey_response(env, hr)
    try:
        y = c.call(_gkdi.GetKey.unpack_response, data)
    except ValueError:
        c.check(hr != 0, "getkey: failure HRESULT raises")
        return "error"
    c.check(all_of([hr == 0, seq_eq(c.call(y.pack), env), struct_eq(y.l2_key, k2), y.l0 == ints["l0"], y.domain_name == "d.t", y.forest_name == "f.t"]), "getkey: response decoded")
    return len(data)


@harness(P, per_job=True, params=lambda tier: [dict(n=n, pad=p) for n in (range(0, 8) if tier == "quick" else range(0, 18)) for p in ([None, 0, 4, 12, 15] if tier == "quick" else [None] + list(range(16)))],
         bounds="_process_get_key_result on a decrypted Response whose stub is the NDR64 reply (envelope length residues 0..7 / 0..17) followed by `pad` symbolic octets, any alloc_hint, with a security "
         "trailer declaring pad_length = pad (0..15) or without a security trailer: the envelope is extracted unchanged", must_reach=("getkey result: declared auth padding stripped, envelope extracted",))
def getkey_result(c, n, pad):
    from dpapi_ng import _client
    from dpapi_ng._rpc import _pdu, _request

    ints = {k: c.int(k, 0, U32) for k in ("version", "flags", "l0", "l1", "l2")}
    rk, rkb = U(c, "rkid")
    k2 = c.bytes("l2key", n)
    env = refs.ref_group_key_envelope(ints["version"], ints["flags"], ints["l0"], ints["l1"], ints["l2"], rkb, "SP800_108_CTR_HMAC", b"P" * 30, "DH", b"", 512, 2048, "d.t", "f.t", b"", k2)
    reply = refs.ref_getkey_response(env, 0)
    tr = None if pad is None else _pdu.SecTrailer(_pdu.SecurityProvider.RPC_C_AUTHN_GSS_NEGOTIATE, _pdu.AuthenticationLevel.RPC_C_AUTHN_LEVEL_PKT_PRIVACY, pad, 0, b"\x00" * 16)
    stub = refs.cat(reply, c.bytes("auth_pad", pad or 0))  # the value of the padding octets is the sender's business (C706 does not prescribe it)
    # alloc_hint is advisory: any value
    resp = _request.Response(_pdu.PDUHeader(5, 0, _pdu.PacketType.RESPONSE, _pdu.PacketFlags(3), _pdu.DataRep(), 0, 16 if tr else 0, 1), tr, c.int("alloc_hint", 0, U32), 0, 0, stub)
    y = c.call(_client._process_get_key_result, resp)
    c.check(all_of([seq_eq(c.call(y.pack), env), struct_eq(y.l2_key, k2), y.l1 == ints["l1"]]), "getkey result: declared auth padding stripped, envelope extracted")
    return len(stub)


@harness(P, per_job=True, params=[dict(rk=True), dict(rk=False)], max_steps=200000,
         bounds="GetKey request with a target SD whose LENGTH is a solver variable over [0, 2^24) (opaque content), root key id present/absent, L0/L1/L2 symbolic: the NDR64 stub equals the "
         "reference encoding (length fields, alignment padding to 8) and decodes back, for every length", outside="SD lengths of 2^24 and more",
         must_reach=("symbolic length: NDR64 request stub", "symbolic length: decode(encode(x)) == x"))
def getkey_symlen(c, rk):
    sd, L = c.blob("sd", 0, (1 << 24) - 1)
    l0, l1, l2 = (c.int(k, -(1 << 31), (1 << 31) - 1) for k in ("l0", "l1", "l2"))
    rku, rkb = U(c, "rkid") if rk else (None, None)
    x = _gkdi.GetKey(sd, rku, l0, l1, l2)
    b = c.call(x.pack)
    pad = c.concretize((-L) % 8) if not isinstance(L, int) else (-L) % 8
    ref = refs.cat(refs.le(L, 4), bytes(4), refs.le(L, 8), sd, bytes(pad), (refs.cat(refs.le(0x00020000, 8), rkb) if rk else bytes(8)), refs.le(l0, 4, True), refs.le(l1, 4, True), refs.le(l2, 4, True))
    c.check(b == ref, "symbolic length: NDR64 request stub")
    y = c.call(_gkdi.GetKey.unpack, b)
    c.check(all_of([y.target_sd == sd, y.l0_key_id == l0, y.l1_key_id == l1, y.l2_key_id == l2, (y.root_key_id is None) if not rk else struct_eq(y.root_key_id, rku)]),
            "symbolic length: decode(encode(x)) == x")
    return True

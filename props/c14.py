"""C14 - replies reassemble identically under any TCP segmentation; EOF is an error."""
from __future__ import annotations

import asyncio
import uuid

from dpapi_ng._rpc import _bind, _client as rc, _pdu, _request

from symex import values as V
from vlib.api import all_of, harness, struct_eq

from . import refs
from .world import seq_eq

META = dict(assumptions=[
    "socket contract: recv(n) returns between 1 and min(n, pending) bytes while data is pending and b'' at EOF; recv_into(buf) writes between 1 and "
    "min(len(buf), pending) bytes and returns the count, 0 at EOF; the chunk sizes are chosen by the solver",
    "asyncio contract: StreamReader.readexactly(n) returns exactly n bytes or raises IncompleteReadError",
])
P = "C14"


class FakeSock:
    def __init__(self, c, data, n_sym_chunks, eof_at=None, tag=""):
        self.tag = tag
        self.c, self.data, self.pos, self.k, self.n_sym, self.eof_at = c, data, 0, 0, n_sym_chunks, eof_at
        self.sent = []
        self.reads = 0

    def sendall(self, b):
        self.sent.append(b)

    def _take(self, limit):
        c = self.c
        self.reads += 1
        c.count("reads")
        end = len(self.data) if self.eof_at is None else self.eof_at
        pending = end - self.pos
        if pending <= 0:
            return 0
        hi = min(limit, pending)
        if self.k < self.n_sym and hi > 64:
            # long reads: the segment boundary is one of a listed set of positions (every position for reads of up to 64 bytes, i.e. everywhere in the header and in short replies)
            cands = sorted({1, 2, 7, 8, 9, 15, 16, 17, hi // 2, hi - 16, hi - 1, hi})
            k = cands[c.concretize(c.int(f"{self.tag}chunk{self.k}_choice", 0, len(cands) - 1))]
        elif self.k < self.n_sym and hi > 1:
            k = c.int(f"{self.tag}chunk{self.k}", 1, hi)
            k = c.concretize(k)
        else:
            k = hi
        self.k += 1
        return k

    def recv(self, n):
        k = self._take(n)
        out = self.data[self.pos : self.pos + k]
        self.pos += k
        return out

    def recv_into(self, view, nbytes=0, flags=0):
        # socket.recv_into contract: nbytes == 0 means "up to len(buffer)"
        want = nbytes if nbytes else len(view)
        k = self._take(want)
        if k:
            view[:k] = self.data[self.pos : self.pos + k]
        self.pos += k
        return k


class FakeReader:
    """asyncio.StreamReader contract: readexactly(n) -> exactly n bytes or IncompleteReadError; read(n) -> between 1 and n of the
    bytes available (solver-chosen, a TCP segment boundary can be anywhere) or b"" at EOF"""

    def __init__(self, data, eof_at=None, c=None):
        self.data, self.pos, self.end = data, 0, len(data) if eof_at is None else eof_at
        self.c, self.k = c, 0

    async def read(self, n=-1):
        pending = self.end - self.pos
        if pending <= 0:
            return b""
        hi = pending if n < 0 else min(n, pending)
        k = hi
        if self.c is not None and hi > 1 and self.k < 3:
            k = self.c.concretize(self.c.int(f"rchunk{self.k}", 1, hi))
        self.k += 1
        out = self.data[self.pos : self.pos + k]
        self.pos += k
        return out

    def at_eof(self):
        """StreamReader.at_eof(): EOF was fed and the buffer is empty. The peer closes right behind the last octet it sends (the case a reply followed by a
        close produces), so this is true as soon as everything has been consumed"""
        return self.pos >= self.end

    async def readuntil(self, separator=b"\n"):
        raise NotImplementedError("readuntil is not part of the modelled contract")

    async def readexactly(self, n):
        if self.end - self.pos < n:
            part = self.data[self.pos : self.end]
            self.pos = self.end
            raise asyncio.IncompleteReadError(bytes(len(part)), n)
        out = self.data[self.pos : self.pos + n]
        self.pos += n
        return out


class FakeWriter:
    def __init__(self):
        self.sent = []

    def write(self, b):
        self.sent.append(b)

    async def drain(self):
        pass


def _hdr(ptype, n, auth_len=0):
    return _pdu.PDUHeader(5, 0, ptype, _pdu.PacketFlags(3), _pdu.DataRep(), n, auth_len, 1)


def _reply(c, kind, extra):
    """(expected response class, reply bytes with symbolic payload)"""
    if kind == "response":
        mk = lambda n: _request.Response(_hdr(_pdu.PacketType.RESPONSE, n), None, 0, 0, 0, b"\x00" * extra)
        cls = _request.Response
    elif kind == "fault":
        mk = lambda n: _pdu.Fault(_hdr(_pdu.PacketType.FAULT, n), None, 0, 0, 0, 5, _pdu.FaultFlags(0), b"\x00" * extra)
        cls = _request.Response
    elif kind == "bind_ack":
        res = [_bind.ContextResult(_bind.ContextResultCode.ACCEPTANCE, 0, uuid.UUID(int=i + 1), 1) for i in range(extra)]
        mk = lambda n: _bind.BindAck(_hdr(_pdu.PacketType.BIND_ACK, n), None, 5840, 5840, 1, "49", res)
        cls = _bind.BindAck
    else:
        res = [_bind.ContextResult(_bind.ContextResultCode.ACCEPTANCE, 0, uuid.UUID(int=i + 1), 1) for i in range(extra)]
        mk = lambda n: _bind.AlterContextResponse(_hdr(_pdu.PacketType.ALTER_CONTEXT_RESP, n), None, 5840, 5840, 1, "", res)
        cls = _bind.AlterContextResponse
    n = len(mk(0).pack())
    raw = mk(n).pack()
    # make the payload symbolic (header stays concrete: frag_len must match the bytes the server sends)
    k = min(len(raw) - 16, 6)
    data = refs.cat(raw[:16], raw[16 : len(raw) - k], c.bytes("payload", k))
    return cls, data


def _request_pdu():
    return _request.Request(_hdr(_pdu.PacketType.REQUEST, 0), None, 4, 0, 0, None, b"ping")


KINDS_Q = [("response", 8), ("bind_ack", 1), ("fault", 0)]
KINDS_T = [("response", 0), ("response", 8), ("response", 23), ("bind_ack", 1), ("bind_ack", 2), ("alter_resp", 1), ("fault", 0), ("fault", 5)]


def _seg_params(tier):
    if tier == "quick":
        return [dict(kind="response", extra=8, chunks=2), dict(kind="bind_ack", extra=1, chunks=2), dict(kind="fault", extra=0, chunks=3),
                dict(kind="response", extra=300, chunks=3)]
    return [dict(kind=k, extra=e, chunks=3) for k, e in KINDS_T] + [dict(kind="response", extra=0, chunks=5), dict(kind="fault", extra=0, chunks=4)] + \
           [dict(kind="response", extra=e, chunks=3) for e in (231, 232, 233, 300, 1000)] + [dict(kind="response", extra=65000, chunks=2)] + [dict(kind="bind_ack", extra=12, chunks=3)]


def _expect(c, data):
    return c.call(_pdu.PDU.unpack, V.SymByteArray(list(V.seq_items(data))) if c.symbolic else bytearray(data))


@harness(P, params=_seg_params, raises=(ValueError,), max_steps=100000,
         bounds="sync client: replies {response, fault, bind_ack, alter_context_resp} of listed sizes (24..64 bytes, and a response of 324 bytes whose frag_len needs both "
         "octets; thorough: also 255/256/257, 1024, 65024 and a 316-byte bind_ack; last 6 bytes symbolic); the first `chunks` reads return a solver-chosen number of bytes (every cut "
         "position for reads of up to 64 bytes - in particular everywhere inside the 16-byte header - and 12 listed positions for longer reads), later reads return everything "
         "asked for; 2-3 chunks quick, up to 5 thorough",
         outside="more symbolic chunks; other reply sizes; unlisted cut positions inside long body reads", must_reach=("sync: same PDU as unsegmented",))
def segmentation_sync(c, kind, extra, chunks):
    cls, data = _reply(c, kind, extra)
    sock = FakeSock(c, data, chunks)
    client = rc.SyncRpcClient.__new__(rc.SyncRpcClient)
    client._auth, client._sign_header, client._sock = None, False, sock
    failed = None
    try:
        want = _expect(c, data)
    except Exception as e:  # a payload the decoder itself refuses: then the segmented path must refuse as well
        want = None
    if kind == "fault":
        try:
            c.call(client._send_pdu, _request_pdu(), cls)
        except ValueError:
            c.check(sock.pos == len(data), "sync: whole PDU consumed")
            c.check(True, "sync: same PDU as unsegmented")
            return "fault"
        c.check(False, "sync: fault reply did not raise")
    try:
        got = c.call(client._send_pdu, _request_pdu(), cls)
    except ValueError:
        # only acceptable when the unsegmented decode refuses the same bytes
        c.check(want is None, "sync: same PDU as unsegmented")
        return "refused"
    c.check(want is not None and struct_eq(got, want), "sync: same PDU as unsegmented")
    c.check(sock.pos == len(data), "sync: whole PDU consumed")
    return c.counter("reads")


@harness(P, params=lambda tier: [dict(kind=k, extra=e, nsym=(1 if tier == "quick" else 2)) for k, e in (KINDS_Q if tier == "quick" else KINDS_T)], raises=(Exception,),
         budget_violation=True, max_steps=20000, native_step_limit=100000,
         bounds="sync client: the connection ends after E delivered bytes for every E in [0, len(reply)) (solver-chosen, data before E arrives in solver-chosen chunks for the "
         "first read (quick) / first 2 reads (thorough)); the call must raise within the step budget", must_reach=())
def eof_sync(c, kind, extra, nsym):
    cls, data = _reply(c, kind, extra)
    e = c.concretize(c.int("eof_at", 0, len(data) - 1))
    sock = FakeSock(c, data, nsym, eof_at=e)
    client = rc.SyncRpcClient.__new__(rc.SyncRpcClient)
    client._auth, client._sign_header, client._sock = None, False, sock
    c.call(client._send_pdu, _request_pdu(), cls)
    c.check(False, "sync: a PDU was returned although the connection ended early")


@harness(P, params=lambda tier: [dict(kind=k, extra=e) for k, e in (KINDS_Q if tier == "quick" else KINDS_T)], raises=(ValueError,), max_steps=100000,
         bounds="async client (readexactly contract): same replies; decoded PDU equals the unsegmented decode and equals the sync client's", must_reach=("async: same PDU as unsegmented",))
def whole_async(c, kind, extra):
    cls, data = _reply(c, kind, extra)
    client = rc.AsyncRpcClient.__new__(rc.AsyncRpcClient)
    client._auth, client._sign_header, client._reader, client._writer = None, False, FakeReader(data, c=c), FakeWriter()
    if kind == "fault":
        try:
            c.call_async(client._send_pdu, _request_pdu(), cls)
        except ValueError:
            c.check(True, "async: same PDU as unsegmented")
            return "fault"
        c.check(False, "async: fault reply did not raise")
    try:
        want = _expect(c, data)
    except Exception:
        want = None
    try:
        got = c.call_async(client._send_pdu, _request_pdu(), cls)
    except ValueError:
        c.check(want is None, "async: same PDU as unsegmented")
        return "refused"
    c.check(want is not None and struct_eq(got, want), "async: same PDU as unsegmented")
    sock = FakeSock(c, data, 0)
    sclient = rc.SyncRpcClient.__new__(rc.SyncRpcClient)
    sclient._auth, sclient._sign_header, sclient._sock = None, False, sock
    got2 = c.call(sclient._send_pdu, _request_pdu(), cls)
    c.check(all_of([struct_eq(got, got2), seq_eq(refs.cat(*sock.sent), refs.cat(*client._writer.sent))]), "sync == async (PDU and bytes sent)")
    return True


@harness(P, params=lambda tier: [dict(kind=k, extra=e) for k, e in (KINDS_Q if tier == "quick" else KINDS_T)], raises=(Exception,), budget_violation=True, max_steps=20000, native_step_limit=100000,
         bounds="async client: EOF after E bytes for every E in [0, len(reply)): must raise", must_reach=())
def eof_async(c, kind, extra):
    cls, data = _reply(c, kind, extra)
    e = c.concretize(c.int("eof_at", 0, len(data) - 1))
    client = rc.AsyncRpcClient.__new__(rc.AsyncRpcClient)
    client._auth, client._sign_header, client._reader, client._writer = None, False, FakeReader(data, eof_at=e, c=c), FakeWriter()
    c.call_async(client._send_pdu, _request_pdu(), cls)
    c.check(False, "async: a PDU was returned although the connection ended early")


@harness(P, per_job=True, params=lambda tier: [dict(kind=k, extra=e) for k, e in ([("response", 8), ("bind_ack", 1)] if tier == "quick" else [("response", 8), ("response", 300), ("bind_ack", 1), ("alter_resp", 1)])],
         raises=(ValueError,), max_steps=200000,
         bounds="two SyncRpcClient objects in one process (two threads): while client A is blocked in a read between two segments of its reply (the solver chooses which read and the "
         "segment sizes), client B performs a complete exchange on its own connection (its reply has different, symbolic payload octets); both must decode exactly their own reply",
         outside="more than two clients; pre-emption at points other than blocking reads", must_reach=("two clients: each decodes its own reply",))
def two_clients(c, kind, extra):
    cls, data_a = _reply(c, kind, extra)
    k = min(len(data_a) - 16, 6)
    data_b = refs.cat(data_a[: len(data_a) - k], c.bytes("payload_b", k))
    sock_b = FakeSock(c, data_b, 1, tag="b_")
    client_b = rc.SyncRpcClient.__new__(rc.SyncRpcClient)
    client_b._auth, client_b._sign_header, client_b._sock = None, False, sock_b
    when = c.concretize(c.int("switch_at_read", 1, 3))
    got_b = {}

    class SockA(FakeSock):
        def _take(self, limit):
            if self.reads + 1 == when and "pdu" not in got_b:
                got_b["pdu"] = None
                got_b["pdu"] = c.call(client_b._send_pdu, _request_pdu(), cls)  # the other thread runs while this one waits for data
            return FakeSock._take(self, limit)

    sock_a = SockA(c, data_a, 2)
    client_a = rc.SyncRpcClient.__new__(rc.SyncRpcClient)
    client_a._auth, client_a._sign_header, client_a._sock = None, False, sock_a
    want_a, want_b = _expect(c, data_a), _expect(c, data_b)
    got_a = c.call(client_a._send_pdu, _request_pdu(), cls)
    if got_b.get("pdu") is None:  # A finished in fewer reads than `when`: B runs afterwards
        got_b["pdu"] = c.call(client_b._send_pdu, _request_pdu(), cls)
    c.check(all_of([struct_eq(got_a, want_a), struct_eq(got_b["pdu"], want_b)]), "two clients: each decodes its own reply")
    return True

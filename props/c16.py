"""C16 - key material is accepted only from replies sealed by the security context."""
from __future__ import annotations

from dpapi_ng._rpc import _client as rc
from dpapi_ng._rpc import _pdu, _request

from symex import values as V
from vlib.api import all_of, harness, truth

from . import refs, secctx
from .world import seq_eq

META = dict(assumptions=[
    "ideal security context at the pyspnego boundary (the repository's AuthenticationProvider runs on top of it): unwrap_iov returns the sealed plaintext iff body and signature (and, with header "
    "signing, header and trailer) are bit-for-bit the ones the peer produced; otherwise it raises. The strength of NTLM/Kerberos sealing is outside the claim.",
    "the adversary controls every byte of the reply; the transport delivers exactly frag_len bytes",
])
P = "C16"
STUB = 16  # sealed stub+padding length of the authentic reply
SIG = 16


def _authentic(c):
    n = 24 + STUB + 8 + SIG
    hdr = _pdu.PDUHeader(5, 0, _pdu.PacketType.RESPONSE, _pdu.PacketFlags(3), _pdu.DataRep(), n, SIG, 1).pack() + b"\x10\x00\x00\x00\x00\x00\x00\x00"
    return dict(header=hdr, body=c.bytes("sealed", STUB), trailer=bytes([9, 6, 4, 0, 0, 0, 0, 0]), sig=c.bytes("sig", SIG), plain=c.bytes("plain", STUB))


def _client(c, auth, sign_header):
    client = rc.RpcClient.__new__(rc.RpcClient)
    client._auth = auth
    client._sign_header = sign_header
    return client


@harness(P, params=lambda tier: [dict(n=n, sign_header=s) for n in ([32, 64] if tier == "quick" else [24, 32, 40, 48, 64, 72, 80]) for s in (True, False)],
         raises=(Exception,), max_steps=400000,
         bounds="adversarial reply: every byte string of the listed total lengths (24..80; 64 = length of the authentic reply) whose packet-type octet is RESPONSE "
         "and whose frag_len equals its length; authentic reply = 24-byte header, 16 sealed bytes, 8-byte trailer, 16-byte signature, all symbolic; header "
         "signing on/off", outside="other reply lengths; replies whose frag_len differs from the number of bytes delivered (the transport reads exactly frag_len)",
         must_reach=("returned stub is the sealed plaintext",))
def response_any(c, n, sign_header):
    a = _authentic(c)
    ctx = secctx.IdealContext(c, SIG)
    ctx.add_authentic(a["header"], a["body"], a["trailer"], a["sig"], a["plain"])
    auth = secctx.provider(ctx)
    client = _client(c, auth, sign_header)
    adv = c.bytes("adv", n)
    c.assume(all_of([adv[2] == 2, adv[8] == n & 0xFF, adv[9] == n >> 8]))
    resp = V.SymByteArray(list(V.seq_items(adv))) if c.symbolic else bytearray(adv)
    ph = c.call(_pdu.PDUHeader.unpack, adv[:16])
    r = c.call(client._process_response, resp, ph, _request.Response, (24, 24 + STUB))
    # a Response was accepted: it must be what the peer sealed
    c.check(all_of([seq_eq(r.stub_data, a["plain"]), ctx.unwrap_calls == 1]), "returned stub is the sealed plaintext")
    if sign_header:
        # the octets *as received* must be the ones the peer signed (frag_len = n, signature = 16 octets => trailer at n-24)
        c.check(all_of([seq_eq(adv[:24], a["header"]), seq_eq(adv[n - SIG - 8 : n - SIG], a["trailer"])]), "header and trailer as received are the authenticated ones")
    c.check(all_of([seq_eq(adv[n - SIG :], a["sig"]), seq_eq(adv[24 : n - SIG - 8], a["body"])]), "sealed body and signature as received are the authentic ones")
    return True


@harness(P, params=lambda tier: [dict(n=n) for n in ([28] if tier == "quick" else [24, 28, 32])], raises=(Exception,), max_steps=400000,
         bounds="adversarial reply of 24/28/32 bytes with any packet-type octet other than RESPONSE: the request must fail (any error)",
         outside="longer replies of other types", must_reach=())
def other_types(c, n):
    a = _authentic(c)
    ctx = secctx.IdealContext(c, SIG)
    ctx.add_authentic(a["header"], a["body"], a["trailer"], a["sig"], a["plain"])
    auth = secctx.provider(ctx)
    client = _client(c, auth, True)
    adv = c.bytes("adv", n)
    c.assume(all_of([adv[2] != 2, adv[8] == n & 0xFF, adv[9] == n >> 8]))
    resp = V.SymByteArray(list(V.seq_items(adv))) if c.symbolic else bytearray(adv)
    ph = c.call(_pdu.PDUHeader.unpack, adv[:16])
    r = c.call(client._process_response, resp, ph, _request.Response, (24, 24 + STUB))
    c.check(False, "a PDU that is not a RESPONSE was returned as the response")
    return True


@harness(P, params=lambda tier: [dict(n2=n, sign_header=s) for n in ([32] if tier == "quick" else [24, 32, 64]) for s in ((True,) if tier == "quick" else (True, False))],
         raises=(Exception,), max_steps=600000,
         bounds="history on one client object: a first reply that is the authentic one with one byte of the signature, the sealed body, the trailer or the header replaced by a symbolic "
         "value (it must be rejected, or be the authentic reply), then a second request on the same client answered by a fully symbolic reply of the listed length: the second request "
         "must still be sealed, and a second reply is only accepted if it is what the peer sealed", outside="longer histories",
         must_reach=("after a rejected reply the next request is still sealed",))
def response_after_rejection(c, n2, sign_header):
    a = _authentic(c)
    ctx = secctx.IdealContext(c, SIG)
    ctx.add_authentic(a["header"], a["body"], a["trailer"], a["sig"], a["plain"])
    auth = secctx.provider(ctx)
    client = _client(c, auth, sign_header)
    good = refs.cat(a["header"], a["body"], a["trailer"], a["sig"])
    n = len(good)
    pos = c.concretize(c.int("pos", 0, 3))
    where = [n - 1, 30, n - SIG - 8 + 2, 3][pos]  # a signature octet, a sealed octet, the trailer's pad_length, the header's flags
    items = list(V.seq_items(good))
    orig = items[where]
    mut = c.int("mut", 0, 255)
    c.assume(mut != orig)  # the first reply really is altered (the unaltered one is the subject of the other harnesses)
    items[where] = mut
    first = V.SymByteArray(items) if c.symbolic else bytearray(items)
    ph = c.call(_pdu.PDUHeader.unpack, (V.SymBytes(items[:16]).norm() if c.symbolic else bytes(items[:16])))
    rejected = False
    try:
        r1 = c.call(client._process_response, first, ph, _request.Response, (24, 24 + STUB))
    except Exception:
        rejected = True
    if not rejected:
        c.check(seq_eq(r1.stub_data, a["plain"]), "first reply accepted only if it carries the sealed plaintext")
    # second request on the same client object
    req, off = c.call(client._create_request, 0, 0, b"q" * STUB)
    c.check(off is not None and req.sec_trailer is not None and req.header.auth_len == SIG and client._auth is auth, "after a rejected reply the next request is still sealed")
    wire = c.call(client._prepare_pdu, req, off)
    c.check(len(ctx.wrap_calls) == 1, "the second request went through the security context")
    adv = c.bytes("adv", n2)
    c.assume(all_of([adv[2] == 2, adv[8] == n2 & 0xFF, adv[9] == n2 >> 8]))
    resp = V.SymByteArray(list(V.seq_items(adv))) if c.symbolic else bytearray(adv)
    ph2 = c.call(_pdu.PDUHeader.unpack, adv[:16])
    r2 = c.call(client._process_response, resp, ph2, _request.Response, off)
    c.check(seq_eq(r2.stub_data, a["plain"]), "second reply accepted only if it carries sealed plaintext")
    return True


@harness(P, per_job=True, params=lambda tier: [dict(L=L, vt=v, n=n) for L in ([0, 1, 16] if tier == "quick" else [0, 1, 3, 16, 17]) for v in (False, True) for n in ([32] if tier == "quick" else [24, 32, 48])],
         raises=(Exception,), max_steps=600000,
         bounds="the request side and the reply side of one exchange together: a request with a stub of listed length (incl. the empty stub) with / without verification trailer on an "
         "authenticated client must go through the security context, and then NO reply of the listed length (fully symbolic octets, packet type RESPONSE, frag_len = length) may be "
         "accepted, because the peer sealed nothing", outside="other lengths", must_reach=("the request was sealed",))
def request_then_any_reply(c, L, vt, n):
    from dpapi_ng import _client as top

    ctx = secctx.IdealContext(c, SIG)
    auth = secctx.provider(ctx)
    client = _client(c, auth, True)
    stub = c.bytes("req_stub", L)
    req, off = c.call(client._create_request, 0, 0, stub, verification_trailer=top._VERIFICATION_TRAILER if vt else None)
    wire = c.call(client._prepare_pdu, req, off)
    c.check(off is not None and req.sec_trailer is not None and req.header.auth_len == SIG and len(ctx.wrap_calls) == 1 and ctx.wrap_calls[0]["encrypt"] is True, "the request was sealed")
    adv = c.bytes("adv", n)
    c.assume(all_of([adv[2] == 2, adv[8] == n & 0xFF, adv[9] == n >> 8]))
    resp = V.SymByteArray(list(V.seq_items(adv))) if c.symbolic else bytearray(adv)
    ph = c.call(_pdu.PDUHeader.unpack, adv[:16])
    r = c.call(client._process_response, resp, ph, _request.Response, off)
    c.check(False, "a reply was accepted although the peer sealed nothing")
    return True

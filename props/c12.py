"""C12 - DCE/RPC and endpoint-mapper wire codecs are inverse; decoders terminate."""
from __future__ import annotations

import uuid

from dpapi_ng import _epm
from dpapi_ng._rpc import _bind, _pdu, _request, _verification as _vt

from symex import values as V
from symex.interp import SymUUID
from vlib.api import all_of, any_of, harness, neg, struct_eq

from . import refs
from .world import seq_eq

META = dict(assumptions=["a well-formed message has frag_len = its encoded size and auth_len = len(auth_value)",
                         "termination is decided as: every path of the decoder on the stated buffers ends (return or exception) within the interpreted-statement budget"])
P = "C12"


def U(c, name):
    b = c.bytes(name, 16)
    return SymUUID(bytes_le=b) if c.symbolic else uuid.UUID(bytes_le=b)


def one_of(c, v, values):
    c.assume(any_of([v == x for x in values]))
    return v


def header(c, ptype, frag_len, auth_len, tag="h", flags=None):
    dr = _pdu.DataRep(one_of(c, c.int(tag + "_bo", 0, 15), [0, 1]), one_of(c, c.int(tag + "_ch", 0, 15), [0, 1]), c.int(tag + "_fp", 0, 3))
    fl = c.int(tag + "_flags", 0, 255) if flags is None else flags
    return _pdu.PDUHeader(c.int(tag + "_v", 0, 255), c.int(tag + "_vm", 0, 255), ptype, fl, dr, frag_len, auth_len, c.int(tag + "_call", 0, (1 << 32) - 1))


def trailer(c, n, tag="t"):
    if n is None:
        return None
    typ = one_of(c, c.int(tag + "_type", 0, 255), [0, 9, 10, 14, 16, 0x44, 0xFF])
    return _pdu.SecTrailer(typ, c.int(tag + "_level", 0, 6), c.int(tag + "_pad", 0, 255), c.int(tag + "_ctx", 0, (1 << 32) - 1), c.bytes(tag + "_auth", n))


def rt_pdu(c, make, label):
    """make(frag_len) -> PDU; pack, unpack through PDU.unpack, repack"""
    n = len(c.call(make(0).pack))
    x = make(n)
    b = c.call(x.pack)
    y = c.call(_pdu.PDU.unpack, b)
    b2 = c.call(y.pack)
    c.check(all_of([type(y) is type(x), seq_eq(b2, b), struct_eq(y, x)]), label)
    return n


def rt(c, x, unpack, label):
    b = c.call(x.pack)
    y = c.call(unpack, b)
    b2 = c.call(y.pack)
    c.check(all_of([type(y) is type(x), seq_eq(b2, b), struct_eq(y, x)]), label)
    return len(b)


# a trailer with a 0-byte auth value is not a well-formed PDU: auth_length = 0 *means* 'no trailer' (C706 13.2.6.1)
AUTH_Q, AUTH_T = [None, 1, 16], [None, 1, 7, 16, 28, 64]


@harness(P, bounds="PDU header: every field symbolic over its wire width (data representation nibbles restricted to the defined values)", must_reach=("pdu header",))
def pdu_header(c):
    ptype = one_of(c, c.int("ptype", 0, 255), [m.value for m in _pdu.PacketType])
    h = header(c, ptype, c.int("frag", 0, 65535), c.int("auth", 0, 65535))
    return rt(c, h, _pdu.PDUHeader.unpack, "pdu header")


@harness(P, params=lambda tier: [dict(n=n) for n in (AUTH_Q if tier == "quick" else AUTH_T) if n is not None],
         bounds="security trailer: defined provider ids, level 0..6, pad 0..255, context id 32-bit, auth value of listed lengths 1..64 (symbolic content)",
         must_reach=("sec trailer",))
def sec_trailer(c, n):
    return rt(c, trailer(c, n), _pdu.SecTrailer.unpack, "sec trailer")


def _ctx(c, i, n_ts):
    return _bind.ContextElement(c.int(f"ctx{i}_id", 0, 65535), _bind.SyntaxId(U(c, f"ctx{i}_abs"), c.int(f"ctx{i}_v", 0, 65535), c.int(f"ctx{i}_vm", 0, 65535)),
                                [_bind.SyntaxId(U(c, f"ctx{i}_ts{j}"), c.int(f"ctx{i}_ts{j}v", 0, 65535), c.int(f"ctx{i}_ts{j}vm", 0, 65535)) for j in range(n_ts)])


def _bind_params(tier):
    if tier == "quick":
        shapes = [(0, 0), (1, 0), (1, 1), (2, 2), (3, 1), (8, 1)]
        auths = [None, 16]
    else:
        shapes = [(n, t) for n in range(0, 9) for t in (0, 1, 4)] + [(2, 2), (2, 3)]
        auths = AUTH_T
    return [dict(n_ctx=n, n_ts=t, auth=a, alter=al) for (n, t) in shapes for a in auths for al in (False, True)]


@harness(P, per_job=True, params=_bind_params, bounds="bind / alter_context: 0..8 contexts x 0..4 transfer syntaxes (listed shapes), every id/version/uuid/flag symbolic, auth trailer absent or of listed sizes",
         outside="more than 8 contexts; other shapes (every element goes through the same loop body)", must_reach=("bind",))
def bind(c, n_ctx, n_ts, auth, alter):
    cls, pt = (_bind.AlterContext, _pdu.PacketType.ALTER_CONTEXT) if alter else (_bind.Bind, _pdu.PacketType.BIND)
    tr = trailer(c, auth)
    ctxs = [_ctx(c, i, n_ts) for i in range(n_ctx)]
    hf = dict(mx=c.int("mx", 0, 65535), mr=c.int("mr", 0, 65535), ag=c.int("ag", 0, (1 << 32) - 1))
    hd = {}

    def make(n):
        if "h" not in hd:
            hd["h"] = header(c, pt, 0, auth or 0)
        h = hd["h"]
        h = _pdu.PDUHeader(h.version, h.version_minor, h.packet_type, h.packet_flags, h.data_rep, n, h.auth_len, h.call_id)
        return cls(h, tr, hf["mx"], hf["mr"], hf["ag"], ctxs)

    return rt_pdu(c, make, "bind")


NONASCII_ADDR = {10: "\u00e9", 11: "\u00fcber", 12: "49\u0661", 13: "\U0001f511k"}  # addr codes >= 10: listed non-ASCII secondary addresses


def _ack_params(tier):
    if tier == "quick":
        return [dict(addr=a, n_res=r, auth=au, alter=al) for (a, r) in [(0, 0), (1, 1), (2, 2), (3, 3), (4, 1), (5, 6), (6, 1), (7, 2), (9, 1), (10, 1), (11, 2), (12, 0), (13, 1)]
                for au in (None, 16) for al in (False, True)]
    return [dict(addr=a, n_res=r, auth=au, alter=al) for a in range(0, 14) for r in (0, 1, 2, 6) for au in (None, 1, 7, 16) for al in (False, True)]


@harness(P, per_job=True, params=_ack_params, bounds="bind_ack / alter_context_resp: secondary address of every length 0..9 (ASCII digits) and 4 listed non-ASCII addresses (2-, 3- and 4-byte UTF-8 sequences), 0..6 results with symbolic result code (defined values), "
         "reason, syntax uuid and version; auth trailer absent / listed sizes", outside="other non-ASCII secondary addresses", must_reach=("bind_ack",))
def bind_ack(c, addr, n_res, auth, alter):
    cls, pt = (_bind.AlterContextResponse, _pdu.PacketType.ALTER_CONTEXT_RESP) if alter else (_bind.BindAck, _pdu.PacketType.BIND_ACK)
    tr = trailer(c, auth)
    res = [_bind.ContextResult(c.int(f"r{i}", 0, 3), c.int(f"reason{i}", 0, 65535), U(c, f"rs{i}"), c.int(f"rv{i}", 0, (1 << 32) - 1)) for i in range(n_res)]
    hf = dict(mx=c.int("mx", 0, 65535), mr=c.int("mr", 0, 65535), ag=c.int("ag", 0, (1 << 32) - 1))
    sec_addr = NONASCII_ADDR[addr] if addr >= 10 else "135790246"[:addr]
    hd = {}

    def make(n):
        if "h" not in hd:
            hd["h"] = header(c, pt, 0, auth or 0)
        h = hd["h"]
        h = _pdu.PDUHeader(h.version, h.version_minor, h.packet_type, h.packet_flags, h.data_rep, n, h.auth_len, h.call_id)
        return cls(h, tr, hf["mx"], hf["mr"], hf["ag"], sec_addr, res)

    return rt_pdu(c, make, "bind_ack")


@harness(P, params=[dict(n=n) for n in range(0, 5)], bounds="bind_nak: 0..4 protocol versions, symbolic reason and version numbers", must_reach=("bind_nak",))
def bind_nak(c, n):
    vers = [(c.int(f"maj{i}", 0, 255), c.int(f"min{i}", 0, 255)) for i in range(n)]
    reason = c.int("reason", 0, 65535)
    hd = {}

    def make(k):
        if "h" not in hd:
            hd["h"] = header(c, _pdu.PacketType.BIND_NAK, 0, 0)
        h = hd["h"]
        h = _pdu.PDUHeader(h.version, h.version_minor, h.packet_type, h.packet_flags, h.data_rep, k, 0, h.call_id)
        return _bind.BindNak(h, None, reason, vers)

    return rt_pdu(c, make, "bind_nak")


def _req_params(tier):
    lens = [0, 1, 7, 8, 17] if tier == "quick" else list(range(0, 18)) + [31, 32, 33, 64]
    auths = [None, 16] if tier == "quick" else AUTH_T
    return [dict(kind=k, n=n, auth=a, obj=o) for k in ("request", "response", "fault") for n in lens for a in auths for o in ((False, True) if k == "request" else (False,))]


@harness(P, per_job=True, params=_req_params, bounds="request / response / fault: stub of listed lengths (0..17 quick; 0..17,31..33,64 thorough) with symbolic content, object UUID present/absent (flag "
         "PFC_OBJECT_UUID set accordingly), alloc hint / context id / opnum / cancel count / status / flags symbolic, auth trailer absent / listed sizes",
         outside="other stub lengths", must_reach=("request/response/fault",))
def req_resp(c, kind, n, auth, obj):
    tr = trailer(c, auth)
    stub = c.bytes("stub", n)
    f = dict(ah=c.int("ah", 0, (1 << 32) - 1), cid=c.int("cid", 0, 65535), op=c.int("op", 0, 65535), cc=c.int("cc", 0, 255), st=c.int("st", 0, (1 << 32) - 1),
             ff=c.int("ff", 0, 255))
    o = U(c, "obj") if obj else None
    fl = c.int("h_flags", 0, 255)
    if kind == "request":
        c.assume(((fl & 0x80) != 0) if obj else ((fl & 0x80) == 0))
    hd = {}
    pt = dict(request=_pdu.PacketType.REQUEST, response=_pdu.PacketType.RESPONSE, fault=_pdu.PacketType.FAULT)[kind]

    def make(k):
        if "h" not in hd:
            hd["h"] = header(c, pt, 0, auth or 0, flags=fl)
        h = hd["h"]
        h = _pdu.PDUHeader(h.version, h.version_minor, h.packet_type, h.packet_flags, h.data_rep, k, h.auth_len, h.call_id)
        if kind == "request":
            return _request.Request(h, tr, f["ah"], f["cid"], f["op"], o, stub)
        if kind == "response":
            return _request.Response(h, tr, f["ah"], f["cid"], f["cc"], stub)
        return _pdu.Fault(h, tr, f["ah"], f["cid"], f["cc"], f["st"], f["ff"], stub)

    return rt_pdu(c, make, "request/response/fault")


def _cmd(c, i, kind, end, vlen=0):
    flags = (0x4000 if end else 0) | (c.int(f"must{i}", 0, 1) * 0x8000)
    if not c.symbolic:
        flags = _vt.CommandFlags(flags)
    if kind == "bitmask":
        return _vt.CommandBitmask(flags, c.int(f"bits{i}", 0, (1 << 32) - 1))
    if kind == "pcontext":
        return _vt.CommandPContext(flags, _bind.SyntaxId(U(c, f"if{i}"), c.int(f"ifv{i}", 0, 65535), c.int(f"ifm{i}", 0, 65535)),
                                   _bind.SyntaxId(U(c, f"ts{i}"), c.int(f"tsv{i}", 0, 65535), c.int(f"tsm{i}", 0, 65535)))
    if kind == "header2":
        pt = one_of(c, c.int(f"pt{i}", 0, 255), [m.value for m in _pdu.PacketType])
        dr = _pdu.DataRep(one_of(c, c.int(f"bo{i}", 0, 15), [0, 1]), one_of(c, c.int(f"ch{i}", 0, 15), [0, 1]), c.int(f"fp{i}", 0, 3))
        return _vt.CommandHeader2(flags, pt, dr, c.int(f"call{i}", 0, (1 << 32) - 1), c.int(f"cid{i}", 0, 65535), c.int(f"op{i}", 0, 65535))
    typ = c.int(f"typ{i}", 0, 0x3FFF)
    c.assume(all_of([typ != 1, typ != 2, typ != 3]))
    return _vt.Command(c.call(_vt.CommandType, typ), flags, c.bytes(f"val{i}", vlen))


def _vt_params(tier):
    kinds = ["bitmask", "pcontext", "header2", "unknown"]
    out = [dict(kinds=[k], vlen=v) for k in kinds for v in ((0, 1, 9) if k == "unknown" else (0,))]
    out += [dict(kinds=["bitmask", "pcontext"], vlen=0), dict(kinds=["unknown", "header2", "pcontext"], vlen=3), dict(kinds=["unknown", "bitmask", "header2", "pcontext"], vlen=5)]
    if tier == "thorough":
        out += [dict(kinds=["unknown"], vlen=v) for v in range(2, 9)] + [dict(kinds=["unknown", "unknown", "unknown", "unknown"], vlen=4)]
    return out


@harness(P, per_job=True, params=_vt_params, bounds="verification trailer with 1..4 commands (bitmask, pcontext, header2, unknown type with 0..9 value bytes), all fields symbolic; last command "
         "carries SEC_VT_COMMAND_END; each command also round-trips alone through Command.unpack", outside="more than 4 commands", must_reach=("verification trailer", "command"))
def verification(c, kinds, vlen):
    cmds = [_cmd(c, i, k, i == len(kinds) - 1, vlen) for i, k in enumerate(kinds)]
    for x in cmds[:1]:
        b = c.call(x.pack)
        y = c.call(_vt.Command.unpack, b)
        c.check(all_of([type(y) is type(x), seq_eq(c.call(y.pack), b), struct_eq(y, x)]), "command")
    return rt(c, _vt.VerificationTrailer(cmds), _vt.VerificationTrailer.unpack, "verification trailer")


def _floor(c, i, kind, l=0, r=0):
    if kind == "tcp":
        return _epm.TCPFloor(c.int(f"port{i}", 0, 65535))
    if kind == "ip":
        return _epm.IPFloor(c.int(f"addr{i}", 0, (1 << 32) - 1))
    if kind == "rpc":
        return _epm.RPCConnectionOrientedFloor(c.int(f"vm{i}", 0, 65535))
    if kind == "uuid":
        return _epm.UUIDFloor(U(c, f"fu{i}"), c.int(f"fv{i}", 0, 65535), c.int(f"fvm{i}", 0, 65535))
    proto = c.int(f"proto{i}", 0, 255)
    c.assume(all_of([proto != 7, proto != 9, proto != 0x0B, proto != 0x0D]))
    return _epm.Floor(c.call(_epm.FloorProtocol, proto), c.bytes(f"lhs{i}", l), c.bytes(f"rhs{i}", r))


def _floors(c, spec):
    return [_floor(c, i, *s) if isinstance(s, tuple) else _floor(c, i, s) for i, s in enumerate(spec)]


def _map_params(tier):
    out = []
    for r in range(8):
        out.append(dict(spec=[("raw", 0, r)], obj=False, eh=False))
        out.append(dict(spec=["uuid", "uuid", "rpc", "tcp", "ip", ("raw", 1, r)], obj=(r % 2 == 0), eh=(r % 3 == 0)))
    out.append(dict(spec=[], obj=True, eh=True))
    if tier == "thorough":
        for l in range(0, 4):
            for r in range(8):
                out.append(dict(spec=["tcp", ("raw", l, r), "ip"], obj=False, eh=True))
    return out


@harness(P, per_job=True, params=_map_params, bounds="ept_map request: towers of 0..6 floors (typed TCP/IP/RPC/UUID floors and raw floors with symbolic protocol id, LHS 0..3 and RHS 0..7 bytes, so the "
         "tower length takes every residue mod 8), object UUID and entry handle present/absent, max_towers symbolic; each floor also round-trips alone",
         outside="more than 6 floors", must_reach=("ept_map",))
def ept_map(c, spec, obj, eh):
    fl = _floors(c, spec)
    for x in fl[-1:]:
        b = c.call(x.pack)
        y = c.call(_epm.Floor.unpack, b)
        c.check(all_of([type(y) is type(x), seq_eq(c.call(y.pack), b), struct_eq(y, x)]), "floor")
    ou = U(c, "obj") if obj else None
    if obj:  # the nil UUID *is* the encoding of "no object": not a distinct well-formed value
        c.assume(neg(seq_eq(ou.bytes_le, bytes(16))))
    m = _epm.EptMap(ou, fl, (c.int("eh_attr", 1, (1 << 32) - 1), U(c, "eh_uuid")) if eh else None, c.int("max_towers", 0, (1 << 32) - 1))
    return rt(c, m, _epm.EptMap.unpack, "ept_map")


def _res_params(tier):
    out = [dict(specs=[], eh=False)]
    for r in range(8):
        out.append(dict(specs=[[("raw", 0, r)]], eh=(r % 2 == 0)))
        out.append(dict(specs=[[("raw", 0, r)], ["tcp"]], eh=False))
        out.append(dict(specs=[["tcp", "ip"], [("raw", 0, r), "tcp"], [("raw", 1, (r + 3) % 8)]], eh=True))
        # towers of the same shape: their contents may be EQUAL (the same tower listed twice), decided by the solver
        out.append(dict(specs=[[("raw", 0, r)], [("raw", 0, r)]], eh=False))
        if r % 2:
            out.append(dict(specs=[[("raw", 0, r)], ["tcp"], [("raw", 0, r)]], eh=False))
    if tier == "thorough":
        for r in range(8):
            for r2 in range(8):
                out.append(dict(specs=[[("raw", 0, r)], [("raw", 0, r2)], ["uuid", "uuid", "rpc", "tcp", "ip"]], eh=False))
        out.append(dict(specs=[["tcp"]] * 6, eh=False))
    return out


@harness(P, per_job=True, params=_res_params, bounds="ept_map result: 0..3 (quick) / 0..6 (thorough) towers whose lengths take every residue mod 8, symbolic floors (towers of equal shape may be equal), status and entry handle; "
         "unpack(pack(x)) == x and pack(unpack(pack(x))) == pack(x)", outside="more towers", must_reach=("ept_map result",))
def ept_map_result(c, specs, eh):
    towers = []
    k = 0
    for spec in specs:
        t = []
        for s in spec:
            t.append(_floor(c, k, *s) if isinstance(s, tuple) else _floor(c, k, s))
            k += 1
        towers.append(t)
    m = _epm.EptMapResult((c.int("eh_attr", 1, (1 << 32) - 1), U(c, "eh_uuid")) if eh else None, towers, c.int("status", 0, (1 << 32) - 1))
    return rt(c, m, _epm.EptMapResult.unpack, "ept_map result")


# ---------------------------------------------------------------------------------------------- termination

DECODERS = {
    "pdu": lambda: _pdu.PDU.unpack,
    "vt": lambda: _vt.VerificationTrailer.unpack,
    "command": lambda: _vt.Command.unpack,
    "ept_map": lambda: _epm.EptMap.unpack,
    "ept_map_result": lambda: _epm.EptMapResult.unpack,
    "floor": lambda: _epm.Floor.unpack,
    "sec_trailer": lambda: _pdu.SecTrailer.unpack,
    "context_element": lambda: _bind.ContextElement.unpack,
}


def _term_params(tier):
    out = []
    for d in DECODERS:
        for n in ([0, 6, 12] if tier == "quick" else [0, 3, 6, 9, 12, 16]):
            out.append(dict(dec=d, n=n, ptype=None))
    # the verification trailer starts with an 8-octet signature: lengths that end inside / right after the next command header
    for n in ([9, 10, 11, 13] if tier == "quick" else [8, 9, 10, 11, 13, 14, 15, 17, 18, 19]):
        out.append(dict(dec="vt", n=n, ptype=None))
    for pt in (0, 2, 3, 11, 12, 13, 14, 15):
        for n in ([20, 28] if tier == "quick" else [16, 20, 24, 28, 32, 36]):
            out.append(dict(dec="pdu", n=n, ptype=pt))
    return out


@harness(P, params=_term_params, raises=(Exception,), budget_violation=True, max_steps=6000, native_step_limit=60000,
         bounds="every decoder (PDU.unpack per packet type, VerificationTrailer, Command, EptMap, EptMapResult, Floor, SecTrailer, ContextElement) on *every* byte string of "
         "the listed lengths (0..12 quick / 0..16 thorough; PDUs: 16-byte header with the type fixed + 4..20 symbolic body bytes, frag_len = length): each path must end "
         "within 6000 interpreted statements", outside="arbitrary-content buffers longer than listed (count fields are 8/16 bit there, see DESIGN)", must_reach=())
def terminates(c, dec, n, ptype):
    if ptype is None:
        buf = c.bytes("buf", n)
    else:
        hdr = bytes([5, 0, ptype, 3, 0x10, 0, 0, 0]) + n.to_bytes(2, "little")
        buf = refs.cat(hdr, c.bytes("authlen", 2), bytes(4), c.bytes("body", n - 16))
    c.call(DECODERS[dec](), buf)
    return True

"""C13 - request framing: lengths, alignment, and exactly the stub region is sealed."""
from __future__ import annotations

import types
import uuid

from dpapi_ng import _client, _gkdi
from dpapi_ng._rpc import _bind, _client as rc, _pdu, _request, _verification as _vt

from symex import values as V
from vlib.api import all_of, harness

from . import refs
from . import secctx
from .world import seq_eq

META = dict(assumptions=[
    "ideal security context at the pyspnego boundary (the repository's AuthenticationProvider runs on top of it): query_message_sizes().header is the configured signature "
    "size; wrap_iov records its buffers and returns Seal(body) and a signature as fresh symbols of the same sizes",
])
P = "C13"
ISD_KEY = _gkdi.ISD_KEY


def _lens(tier):
    return list(range(0, 49)) + [63, 64, 65, 127, 128, 129, 255, 256, 257, 300] if tier == "quick" else list(range(0, 321)) + [1023, 1024, 1025, 4095, 4096]


def _params(tier):
    out = []
    sigs = [16, 28, 60, 76]
    for i, L in enumerate(_lens(tier)):
        if tier == "quick":
            out.append(dict(L=L, vt=bool(i % 2), sig=sigs[i % 4], sign=bool((i // 2) % 2)))
            out.append(dict(L=L, vt=not bool(i % 2), sig=sigs[(i + 1) % 4], sign=bool((i // 3) % 2)))
        else:
            for vt in (False, True):
                for sig in sigs + [0, 255]:
                    out.append(dict(L=L, vt=vt, sig=sig, sign=bool((L + sig) % 2)))
    return out


VT = _client._VERIFICATION_TRAILER


@harness(P, per_job=True, params=_params, bounds="stub lengths 0..48,63..65,127..129,255..257,300 (quick) / 0..320,1023..1025,4095,4096 (thorough) with symbolic stub content, verification "
         "trailer on/off, signature sizes {16,28,60,76} (+{0,255} thorough), header signing on/off, context id and opnum symbolic; then a second request on the same client and a request on a second connection whose context has another signature size",
         outside="stub lengths not listed (symbolic-length harness framing_symlen covers the arithmetic for every length)",
         must_reach=("frag_len/auth_len", "vt at next 4-byte boundary", "trailer 16-aligned, pad_length = padding added", "exactly header|stub+pad|trailer handed to wrap",
                     "wire = header | sealed | trailer | signature"))
def framing(c, L, vt, sig, sign):
    ctx = secctx.IdealContext(c, sig)
    auth = secctx.provider(ctx)
    client = rc.RpcClient(auth)
    client._sign_header = sign
    stub = c.bytes("stub", L)
    ctx_id, opnum = c.int("ctx", 0, 65535), c.int("opnum", 0, 65535)
    req, off = c.call(client._create_request, ctx_id, opnum, stub, verification_trailer=VT if vt else None)
    wire = c.call(client._prepare_pdu, req, off)
    wire = refs.cat(wire)
    n = len(wire)
    vt_bytes = VT.pack() if vt else b""
    p4 = (-L % 4) if vt else 0
    body_len = L + p4 + len(vt_bytes)
    p16 = -body_len % 16
    c.check(all_of([n == 24 + body_len + p16 + 8 + sig, wire[8] == (n & 0xFF), wire[9] == (n >> 8), wire[10] == (sig & 0xFF), wire[11] == (sig >> 8)]), "frag_len/auth_len")
    (call,) = ctx.wrap_calls
    (ht, h), (bt, b), (tt, t), (st, _) = call["bufs"]
    BT = secctx.BT
    want_type = BT.sign_only if sign else BT.data_readonly
    c.check(ht == want_type and tt == want_type and bt == BT.data and st == BT.header and call["encrypt"] is True,
            "header and trailer are signed exactly when header signing is on; the body is sealed")
    c.check(all_of([seq_eq(b[:L], stub), seq_eq(b[L : L + p4], bytes(p4)), seq_eq(b[L + p4 : L + p4 + len(vt_bytes)], vt_bytes)]), "vt at next 4-byte boundary")
    c.check(all_of([len(b) == body_len + p16, len(b) % 16 == 0, seq_eq(b[body_len:], bytes(p16)), t[2] == p16, p16 < 16]), "trailer 16-aligned, pad_length = padding added")
    ref_hdr = refs.cat(bytes([5, 0, 0, 3, 0x10, 0, 0, 0]), refs.le(n, 2), refs.le(sig, 2), refs.le(1, 4), refs.le(len(b), 4), refs.le(ctx_id, 2), refs.le(opnum, 2))
    c.check(all_of([seq_eq(h, ref_hdr), seq_eq(t, bytes([9, 6, p16, 0, 0, 0, 0, 0])), len(h) == 24, len(t) == 8]), "exactly header|stub+pad|trailer handed to wrap")
    c.check(all_of([seq_eq(wire[:24], h), seq_eq(wire[24 : 24 + len(b)], call["sealed"]), seq_eq(wire[24 + len(b) : 32 + len(b)], t),
                    seq_eq(wire[32 + len(b) :], call["sig"]), n == 32 + len(b) + sig]), "wire = header | sealed | trailer | signature")
    # a second request on the same client (different length residue): its framing must not depend on the first one
    L2 = (L * 7 + 5) % 61
    stub2 = c.bytes("stub2", L2)
    req2, off2 = c.call(client._create_request, ctx_id, opnum, stub2, verification_trailer=None if vt else VT)
    wire2 = refs.cat(c.call(client._prepare_pdu, req2, off2))
    call2 = ctx.wrap_calls[1]
    (_, h2), (_, b2), (_, t2), _ = call2["bufs"]
    vt2 = b"" if vt else VT.pack()
    q4 = 0 if vt else (-L2 % 4)
    body2 = L2 + q4 + len(vt2)
    q16 = -body2 % 16
    c.check(all_of([len(b2) == body2 + q16, t2[2] == q16, seq_eq(b2[:L2], stub2), seq_eq(b2[L2 + q4 : L2 + q4 + len(vt2)], vt2), len(wire2) == 24 + len(b2) + 8 + sig,
                    wire2[8] == (len(wire2) & 0xFF), wire2[9] == (len(wire2) >> 8), wire2[10] == sig & 0xFF, seq_eq(wire2[24 + len(b2) : 32 + len(b2)], t2)]),
            "second request on the same client is framed on its own")
    # a second CONNECTION in the same process whose security context negotiated a different signature size (negotiate -> NTLM 16 / Kerberos 28, 60, 76)
    sig3 = {16: 28, 28: 60, 60: 76, 76: 16}.get(sig, 16)
    ctx3 = secctx.IdealContext(c, sig3, tag="conn2_")
    client3 = rc.RpcClient(secctx.provider(ctx3))
    client3._sign_header = sign
    L3 = (L * 5 + 3) % 53
    stub3 = c.bytes("stub3", L3)
    req3, off3 = c.call(client3._create_request, ctx_id, opnum, stub3, verification_trailer=None)
    wire3 = refs.cat(c.call(client3._prepare_pdu, req3, off3))
    (_, h3), (_, b3), (_, t3), _ = ctx3.wrap_calls[0]["bufs"]
    r16 = -L3 % 16
    c.check(all_of([len(b3) == L3 + r16, t3[2] == r16, len(wire3) == 24 + len(b3) + 8 + sig3, wire3[8] == (len(wire3) & 0xFF), wire3[9] == (len(wire3) >> 8),
                    wire3[10] == sig3 & 0xFF, wire3[11] == sig3 >> 8, seq_eq(wire3[32 + len(b3) :], ctx3.wrap_calls[0]["sig"])]),
            "a second connection with another signature size is framed with its own size")
    return n


@harness(P, per_job=True, params=lambda tier: [dict(L=L, vt=v) for L in ([0, 1, 5, 16, 33] if tier == "quick" else range(0, 40)) for v in (False, True)],
         bounds="no security context: the stub (+ 4-byte aligned verification trailer) goes out unpadded, auth_len = 0, no trailer", must_reach=("unauthenticated framing",))
def framing_noauth(c, L, vt):
    client = rc.RpcClient(None)
    stub = c.bytes("stub", L)
    req, off = c.call(client._create_request, 0, 3, stub, verification_trailer=VT if vt else None)
    wire = refs.cat(c.call(client._prepare_pdu, req, off))
    vt_bytes = VT.pack() if vt else b""
    p4 = (-L % 4) if vt else 0
    n = 24 + L + p4 + len(vt_bytes)
    c.check(all_of([off is None, len(wire) == n, wire[8] == n & 0xFF, wire[9] == n >> 8, wire[10] == 0, wire[11] == 0, seq_eq(wire[24 : 24 + L], stub),
                    seq_eq(wire[24 + L + p4 :], vt_bytes)]), "unauthenticated framing")
    return n


def _reply_params(tier):
    out = []
    for L in ([16, 24, 31, 32, 40, 47] if tier == "quick" else range(16, 64)):
        for pad in ([0, 1, 7, 15] if tier == "quick" else range(0, 16)):
            if pad <= L - 16:
                out.append(dict(L=L, pad=pad))
    return out


@harness(P, per_job=True, params=_reply_params, raises=(ValueError,), bounds="reply side: decrypted stub of length 16..47 (quick) / 16..63 (thorough) whose last `pad` bytes (0..15) are the declared auth padding, with any (advisory) alloc_hint: "
         "GetKey.unpack_response must see exactly the stub minus pad bytes (observed through the HRESULT and length fields it reads)", must_reach=("exactly pad_length bytes stripped",))
def reply_padding(c, L, pad):
    seen = {}
    real = _gkdi.GetKey.unpack_response

    def spy(data):
        seen["data"] = data
        raise ValueError("stop")

    stub = c.bytes("stub", L)
    tr = _pdu.SecTrailer(_pdu.SecurityProvider.RPC_C_AUTHN_WINNT, _pdu.AuthenticationLevel.RPC_C_AUTHN_LEVEL_PKT_PRIVACY, c.int("padfield", 0, 255), 0, b"\x00" * 16)
    c.assume(tr.pad_length == pad)
    resp = _request.Response(_pdu.PDUHeader(5, 0, _pdu.PacketType.RESPONSE, _pdu.PacketFlags(3), _pdu.DataRep(), 0, 16, 1), tr, c.int("alloc_hint", 0, (1 << 32) - 1), 0, 0, stub)
    c.stubs([(real.__func__, spy)])
    try:
        c.call(_client._process_get_key_result, resp)
    except ValueError:
        pass
    c.check("data" in seen and all_of([len(seen["data"]) == L - pad, seq_eq(refs.cat(seen["data"]), stub[: L - pad])]), "exactly pad_length bytes stripped")
    return L - pad


@harness(P, per_job=True, params=lambda tier: [dict(vt=v, sig=s, sign=g) for v in (False, True) for (s, g) in ([(16, True), (28, False)] if tier == "quick" else [(16, True), (28, False), (60, True), (76, False)])],
         max_steps=400000,
         bounds="stub length L a solver variable over [0, 60000] (the stub is an opaque byte string of symbolic length; its content is never inspected), verification trailer on/off, "
         "signature sizes listed, header signing on/off: frag_len, alloc_hint, the verification-trailer offset, the 16-byte alignment and pad_length, and the three regions handed to "
         "wrap are proved as equalities between length expressions for every L", outside="L above 60000 (frag_len is a 16-bit field; larger requests overflow it)",
         must_reach=("symbolic length: framing arithmetic",))
def framing_symlen(c, vt, sig, sign):
    from vlib.api import any_of

    ctx = secctx.IdealContext(c, sig)
    auth = secctx.provider(ctx)
    client = rc.RpcClient(auth)
    client._sign_header = sign
    stub, L = c.blob("stub", 0, 60000)
    req, off = c.call(client._create_request, 7, 3, stub, verification_trailer=VT if vt else None)
    wire = c.call(client._prepare_pdu, req, off)
    (call,) = ctx.wrap_calls
    (ht, h), (bt, b), (tt, t), (st, _) = call["bufs"]
    vt_bytes = VT.pack() if vt else b""
    n = V.blen(wire)
    blen_ = V.blen(b)
    p16 = t[2]
    # body = stub | pad4 | VT | pad16 : as a statement about lengths and about where the opaque stub and the literal VT sit
    conds = [blen_ % 16 == 0, p16 < 16, n == 24 + blen_ + 8 + sig, V.blen(h) == 24, V.blen(t) == 8]
    head = b[:L]
    conds.append(head == stub)
    if vt:
        p4 = (-L) % 4
        vt_off = L + p4
        conds += [b[vt_off : vt_off + len(vt_bytes)] == vt_bytes, blen_ == vt_off + len(vt_bytes) + p16, b[L:vt_off] == bytes(c.concretize(p4)), p4 < 4, vt_off % 4 == 0]
    else:
        conds += [blen_ == L + p16]
    conds.append(b[blen_ - p16 :] == bytes(c.concretize(p16)))
    # header fields: frag_len, auth_len, alloc_hint
    conds += [h[8:10] == (n.to_bytes(2, "little") if not isinstance(n, int) else n.to_bytes(2, "little")), h[10:12] == sig.to_bytes(2, "little"),
              h[16:20] == (blen_.to_bytes(4, "little") if not isinstance(blen_, int) else blen_.to_bytes(4, "little"))]
    conds += [wire[:24] == h, wire[24 : 24 + blen_] == call["sealed"], wire[24 + blen_ : 32 + blen_] == t, wire[32 + blen_ :] == call["sig"]]
    from vlib.api import all_of as _all

    c.check(_all([x if isinstance(x, (bool, V.SymBool)) else bool(x) for x in conds]), "symbolic length: framing arithmetic")
    return True


@harness(P, per_job=True, params=[dict(L=L, vt=v, sign=g) for L in (0, 5, 16) for v in (False, True) for g in (True, False)], raises=(Exception,),
         bounds="a security provider without IOV support (wrap_iov refuses; only a data-only sealing primitive exists), stub lengths {0,5,16}, verification trailer on/off, header "
         "signing on/off: either nothing is sent (any error), or header and trailer were protected as header signing requires", must_reach=("no IOV: refused or protected",))
def framing_no_iov(c, L, vt, sign):
    ctx = secctx.IdealContext(c, 16)
    ctx.iov = False
    auth = secctx.provider(ctx)
    client = rc.RpcClient(auth)
    client._sign_header = sign
    stub = c.bytes("stub", L)
    c.reach("no IOV: refused or protected")
    req, off = c.call(client._create_request, 7, 0, stub, verification_trailer=VT if vt else None)
    wire = c.call(client._prepare_pdu, req, off)
    (call,) = ctx.wrap_calls
    c.check(not sign or len(call["bufs"]) == 4, "no IOV: with header signing on, header and trailer went through the security context")
    return "sent"

"""C07 - ASN.1 DER primitives: minimal encoding, exact decoding, exact consumption."""
from __future__ import annotations

from dpapi_ng import _asn1

from symex import values as V
from vlib.api import all_of, any_of, harness, ite

from . import refs

META = dict(assumptions=[
    "reference encoders in props/refs.py are written from X.690 and are the oracle",
    "integers are modelled as exact unbounded ints by width-extending bit-vectors; no wrap-around",
])

P = "C07"


def _params_int(tier):
    # stripes over the magnitude: |v| < 2^(8k) ... keeps every job small; union = [-2^B, 2^B]
    B = 72 if tier == "quick" else 520
    step = 8 if tier == "quick" else 24
    out = []
    lo = 0
    while lo < B:
        out.append(dict(lo_bits=lo, hi_bits=min(B, lo + step)))
        lo += step
    return out


@harness(P, params=_params_int, bounds="INTEGER/ENUMERATED value v with 2^lo_bits <= |v|+1 <= 2^hi_bits, stripes cover |v| <= 2^72 (quick) / 2^520 (thorough); "
         "tag: default, or context-specific primitive [n] with n symbolic in [0,2^32)", outside="|v| beyond the stated range",
         must_reach=("int: encoding is minimal DER", "int: read back"))
def int_roundtrip(c, lo_bits, hi_bits):
    neg = c.bool("neg")
    m = c.int("m", (1 << lo_bits) - 1 if lo_bits else 0, (1 << hi_bits))
    v = ite(neg, -m, m) if c.symbolic else (-m if neg else m)
    enc = c.call(_asn1._pack_asn1_integer, v)
    ref = refs.der_tlv(0, False, 2, refs.der_int_content(v))
    c.check(enc == ref, "int: encoding is minimal DER")
    val, consumed = c.call(_asn1._read_asn1_integer, enc)
    c.check(all_of([val == v, consumed == len(enc)]), "int: read back")
    enc2 = c.call(_asn1._pack_asn1_enumerated, v)
    c.check(enc2 == refs.der_tlv(0, False, 10, refs.der_int_content(v)), "enum: encoding is minimal DER")
    val2, consumed2 = c.call(_asn1._read_asn1_enumerated, enc2)
    c.check(all_of([val2 == v, consumed2 == len(enc2)]), "enum: read back")
    return len(enc)


@harness(P, params=[dict(n=n) for n in range(1, 9)], bounds="every INTEGER content of 1..8 octets (all 2^(8n) contents, minimal or not)",
         outside="contents longer than 8 octets", must_reach=("int decode = two's complement",))
def int_decode_any(c, n):
    content = c.bytes("content", n)
    data = refs.cat(bytes([2, n]), content)
    val, consumed = c.call(_asn1._read_asn1_integer, data)
    c.check(all_of([val == V.int_from_bytes(content, "big", signed=True) if c.symbolic else val == int.from_bytes(content, "big", signed=True),
                    consumed == n + 2]), "int decode = two's complement")
    return consumed


@harness(P, bounds="BOOLEAN true/false, default tag", must_reach=("bool",))
def bool_roundtrip(c):
    b = c.bool("b")
    enc = c.call(_asn1._pack_asn1_boolean, b)
    c.check(enc == refs.cat(bytes([1, 1]), V.SymBytes([ite(b, 0xFF, 0)]).norm() if c.symbolic else bytes([0xFF if b else 0])), "bool")
    val, consumed = c.call(_asn1._read_asn1_boolean, enc)
    c.check(all_of([(val == b) if not c.symbolic else V.mkbool(V.tobool(val) == b.t), consumed == 3]), "bool")
    return consumed


_LENS_Q = [0, 1, 2, 126, 127, 128, 129, 255, 256, 257]
_LENS_T = _LENS_Q + [300, 511, 512, 1000]


@harness(P, params=lambda tier: [dict(n=n) for n in (_LENS_Q if tier == "quick" else _LENS_T)],
         bounds="tag class symbolic 0..3, constructed symbolic, tag number symbolic in [0,2^32) (UNIVERSAL: 0..36, the numbers the reader "
         "defines); content lengths listed {0,1,2,126..129,255..257}(+{300,511,512,1000} thorough) with symbolic first/last content octets",
         outside="content lengths not listed (length-symbolic harness tlv_len covers the length field itself)",
         must_reach=("tlv: minimal DER", "tlv: header read back", "tlv: validate_tag consumes exactly"))
def tlv_roundtrip(c, n):
    cls = c.int("cls", 0, 3)
    cons = c.bool("cons")
    num = c.int("num", 0, (1 << 32) - 1)
    c.assume(V.mkbool(V.z3.Or((cls != 0).t, (num <= 36).t)) if c.symbolic else (cls != 0 or num <= 36))
    if n == 0:
        content = b""
    elif n == 1:
        content = c.bytes("c", 1)
    else:
        content = refs.cat(c.bytes("c0", 1), bytes(n - 2), c.bytes("c1", 1))
    enc = c.call(_asn1._pack_asn1, cls, cons, num, content)
    ref = refs.der_tlv(cls, cons, num, content)
    c.check(enc == ref, "tlv: minimal DER")
    # encoding is a function of its arguments: the same value packed again (and with the other class / constructed bit in between) gives the same octets
    other = c.call(_asn1._pack_asn1, 3 - cls, not cons if not c.symbolic else V.mkbool(V.z3.Not(cons.t)), num, content)
    again = c.call(_asn1._pack_asn1, cls, cons, num, content)
    c.check(all_of([again == ref, other == refs.der_tlv(3 - cls, (not cons) if not c.symbolic else V.mkbool(V.z3.Not(cons.t)), num, content)]), "tlv: packing twice gives the same octets")
    hdr = c.call(_asn1._read_asn1_header, enc)
    c.check(all_of([hdr.tag.tag_class == cls, hdr.tag.tag_number == num,
                    (hdr.tag.is_constructed == cons) if not c.symbolic else V.mkbool(V.tobool(hdr.tag.is_constructed) == cons.t),
                    hdr.length == n, hdr.tag_length + n == len(enc)]), "tlv: header read back")
    tag = _asn1.ASN1Tag(hdr.tag.tag_class, hdr.tag.tag_number, hdr.tag.is_constructed)
    # two values back to back: the reader must return them in order and leave nothing
    both = refs.cat(enc, enc)
    v1, used1 = c.call(_asn1._validate_tag, both, tag, tag)
    v2, used2 = c.call(_asn1._validate_tag, V.SymView(both)[used1:] if c.symbolic else memoryview(both)[used1:], tag, tag)
    c.check(all_of([used1 == len(enc), used2 == len(enc), refs.cat(v1) == content, refs.cat(v2) == content]),
            "tlv: validate_tag consumes exactly")
    return len(enc)


def _oid_params(tier):
    out = []
    for n in ([2, 3, 4] if tier == "quick" else [2, 3, 4, 5, 6, 8]):
        for a0 in (0, 1, 2):
            # every arc forks over its base-128 length (10 classes below 2^64): keep the product of classes bounded
            out.append(dict(n=n, a0=a0, bits=64 if n <= 4 else (21 if n == 5 else 14)))
    return out


@harness(P, params=_oid_params, bounds="OIDs with 2..4 (quick) / 2..8 (thorough) arcs; first arc 0,1,2; second arc symbolic < 40 (any value < 2^32 when first "
         "arc is 2); further arcs symbolic < 2^64 (2..4 arcs), < 2^21 (5 arcs), < 2^14 (6 and 8 arcs)", outside="more arcs; larger arcs",
         must_reach=("oid: encoding is minimal DER", "oid: read back"))
def oid_roundtrip(c, n, a0, bits):
    arcs = [a0, c.int("a1", 0, 39 if a0 < 2 else (1 << min(32, bits)) - 1)] + [c.int(f"a{i}", 0, (1 << bits) - 1) for i in range(2, n)]
    s = V.SymStr.join(".", [V.SymStr.dec(a) for a in arcs]) if c.symbolic else ".".join(str(a) for a in arcs)
    enc = c.call(_asn1._pack_asn1_object_identifier, s)
    content = refs.der_oid_content(arcs)
    c.check(enc == refs.cat(bytes([6]), refs.der_len(len(content)), content), "oid: encoding is minimal DER")
    val, consumed = c.call(_asn1._read_asn1_object_identifier, enc)
    back = V.split_ints(val, ".")
    c.check(all_of([len(back) == n] + [x == y for x, y in zip(back, arcs)] + [consumed == len(enc)]), "oid: read back")
    return consumed


@harness(P, raises=(ValueError,), bounds="OID strings whose first arc is 3..39 or whose second arc is >= 40 under first arc 0/1 must be refused",
         must_reach=())
def oid_invalid(c):
    a0 = c.int("a0", 0, 39)
    a1 = c.int("a1", 0, 200)
    c.assume(V.mkbool(V.z3.Or((a0 > 2).t, V.z3.And((a0 < 2).t, (a1 > 39).t))) if c.symbolic else (a0 > 2 or (a0 < 2 and a1 > 39)))
    s = V.SymStr.join(".", [V.SymStr.dec(a0), V.SymStr.dec(a1), "5"]) if c.symbolic else f"{a0}.{a1}.5"
    c.call(_asn1._pack_asn1_object_identifier, s)
    c.check(False, "invalid OID accepted")


def _str_params(tier):
    return [dict(n=n) for n in ([0, 1, 5, 127, 128] if tier == "quick" else [0, 1, 5, 16, 127, 128, 129, 255, 256])]


@harness(P, params=_str_params, bounds="OCTET STRING / UTF8String / GeneralizedTime with ASCII content, listed lengths, first 4 content octets symbolic",
         outside="non-ASCII UTF-8 content is exercised concretely only", must_reach=("octet string", "utf8 string", "generalized time"))
def string_roundtrip(c, n):
    k = min(n, 4)
    head = c.bytes("s", k)
    content = refs.cat(head, b"A" * (n - k))
    enc = c.call(_asn1._pack_asn1_octet_string, content)
    c.check(enc == refs.der_tlv(0, False, 4, content), "octet string")
    v, used = c.call(_asn1._read_asn1_octet_string, enc)
    c.check(all_of([refs.cat(v) == content, used == len(enc)]), "octet string")
    # text types: ASCII only so that str <-> bytes is the identity on code points
    if c.symbolic:
        for x in V.seq_items(head):
            c.assume(x < 128)
        text = V.SymStr.from_ascii(content)
    else:
        if any(x >= 128 for x in head):
            c.assume(False)
        text = content.decode("ascii")
    enc = c.call(_asn1._pack_asn1_utf8_string, text)
    c.check(enc == refs.der_tlv(0, False, 12, content), "utf8 string")
    v, used = c.call(_asn1._read_asn1_utf8_string, enc)
    c.check(all_of([v == text, used == len(enc)]), "utf8 string")
    enc = c.call(_asn1._pack_asn1_generalized_time, text)
    c.check(enc == refs.der_tlv(0, False, 24, content), "generalized time")
    v, used = c.call(_asn1._read_asn1_generalized_time, enc)
    c.check(all_of([v == text, used == len(enc)]), "generalized time")
    return used


@harness(P, bounds="writer trees: SEQUENCE{ INTEGER a, SET{ OCTET STRING(2 symbolic octets), [ctx n] SEQUENCE{ BOOLEAN, ENUMERATED e } }, OID } with symbolic "
         "leaves; read back with ASN1Reader; nothing left over at any level", outside="other tree shapes (each level is the same push/pack code)",
         must_reach=("nested: bytes equal reference", "nested: read back and nothing left"))
def nested_writer(c):
    a = c.int("a", -(1 << 40), 1 << 40)
    e = c.int("e", 0, 1 << 20)
    b = c.bool("b")
    n = c.int("n", 0, 1 << 20)
    octs = c.bytes("o", 2)
    W, T = _asn1.ASN1Writer, _asn1.ASN1Tag

    def build():
        w = W()
        with w.push_sequence() as s1:
            s1.write_integer(a)
            with s1.push_set() as st:
                st.write_octet_string(octs)
                with st.push_sequence(T(_asn1.TagClass.CONTEXT_SPECIFIC, n, True)) as s2:
                    s2.write_boolean(b)
                    s2.write_enumerated(e)
            s1.write_object_identifier("1.2.840.113549.1.7.3")
        return w.get_data()

    data = c.interpret(build)
    bb = V.SymBytes([ite(b, 0xFF, 0)]).norm() if c.symbolic else bytes([0xFF if b else 0])
    inner = refs.cat(refs.der_tlv(0, False, 1, bb), refs.der_tlv(0, False, 10, refs.der_int_content(e)))
    st = refs.cat(refs.der_tlv(0, False, 4, octs), refs.der_tlv(2, True, n, inner))
    ref = refs.der_tlv(0, True, 16, refs.cat(refs.der_tlv(0, False, 2, refs.der_int_content(a)), refs.der_tlv(0, True, 17, st),
                                              bytes.fromhex("06092a864886f70d010703")))
    c.check(refs.cat(data) == ref, "nested: bytes equal reference")

    def read(d):
        r = _asn1.ASN1Reader(d)
        s1 = r.read_sequence()
        ra = s1.read_integer()
        st_ = s1.read_set()
        ro = st_.read_octet_string()
        s2 = st_.read_sequence(tag=T(_asn1.TagClass.CONTEXT_SPECIFIC, n, True))
        rb = s2.read_boolean()
        re_ = s2.read_enumerated(int)
        oid = s1.read_object_identifier()
        return ra, ro, rb, re_, oid, bool(r), bool(s1), bool(st_), bool(s2)

    ra, ro, rb, re_, oid, l0, l1, l2, l3 = c.interpret(read, data)
    c.check(all_of([ra == a, refs.cat(ro) == octs, (rb == b) if not c.symbolic else V.mkbool(V.tobool(rb) == b.t), re_ == e,
                    oid == "1.2.840.113549.1.7.3", not l0, not l1, not l2, not l3]), "nested: read back and nothing left")
    return len(data)


@harness(P, per_job=True, params=lambda tier: [dict(hi=h) for h in ([(1 << 32) - 1] if tier == "quick" else [(1 << 32) - 1, (1 << 64) - 1])], max_steps=200000,
         bounds="content LENGTH a solver variable over [0, 2^32) (thorough also [0, 2^64)): the content is an opaque byte string of symbolic length; tag class, constructed bit and tag number "
         "(< 2^32) symbolic as in tlv_roundtrip. The length octets are proved minimal and the reader's length / consumption equal to the symbolic length for every length",
         outside="content of the value (opaque); lengths above the stated range",
         must_reach=("symbolic length: minimal DER length octets", "symbolic length: header read back", "symbolic length: consumes exactly"))
def tlv_symlen(c, hi):
    cls = c.int("cls", 0, 3)
    cons = c.bool("cons")
    num = c.int("num", 0, (1 << 32) - 1)
    c.assume(V.mkbool(V.z3.Or((cls != 0).t, (num <= 36).t)) if c.symbolic else (cls != 0 or num <= 36))
    content, L = c.blob("content", 0, hi)
    enc = c.call(_asn1._pack_asn1, cls, cons, num, content)
    ref = refs.der_tlv(cls, cons, num, content)
    c.check(enc == ref, "symbolic length: minimal DER length octets")
    hdr = c.call(_asn1._read_asn1_header, enc)
    total = V.blen(enc)
    c.check(all_of([hdr.tag.tag_class == cls, hdr.tag.tag_number == num, hdr.length == L, hdr.tag_length + L == total]), "symbolic length: header read back")
    tag = _asn1.ASN1Tag(hdr.tag.tag_class, hdr.tag.tag_number, hdr.tag.is_constructed)
    both = refs.cat(enc, b"\x05\x00")
    v, used = c.call(_asn1._validate_tag, both, tag, tag)
    c.check(all_of([used == total, v == content]), "symbolic length: consumes exactly")
    return True


# operation histories on ONE reader over the stream  V1 = OCTET STRING (n1 octets), V2 = INTEGER a, V3 = UTF8String "hi":
# "p" peek_header, "s" skip_value(last peeked header), "o"/"i"/"u" read_octet_string / read_integer / read_utf8_string, "r" get_remaining_data, "b" bool(reader)
READER_HISTORIES = ["psp", "pspsp", "ppopip", "psppiu", "opsu", "pspr", "prb", "oprb", "psipub", "popspsb", "ppspspb"]


@harness(P, per_job=True, params=lambda tier: [dict(hist=h, n1=n) for h in READER_HISTORIES for n in ([0, 2, 130] if tier == "quick" else [0, 1, 2, 127, 128, 130, 256, 300])], max_steps=400000,
         raises=(), bounds="histories of peek_header / skip_value / read_* / get_remaining_data / bool on one ASN1Reader (11 listed histories of up to 7 operations) over a stream of three values "
         "whose first has a listed length (short and long length forms) and symbolic content and whose second is a symbolic INTEGER: every operation acts on the value at the "
         "reader's current position - a peek returns the header of the next unread value, a read returns that value, the remaining data is exactly the unread rest",
         outside="other histories and streams", must_reach=("reader history: every operation acted at the current position",))
def reader_histories(c, hist, n1):
    o1 = c.bytes("o1", n1) if n1 <= 8 else refs.cat(c.bytes("o1_head", 4), bytes(n1 - 8), c.bytes("o1_tail", 4))
    a = c.int("a", -(1 << 40), 1 << 40)
    vals = [refs.der_tlv(0, False, 4, o1), refs.der_tlv(0, False, 2, refs.der_int_content(a)), refs.der_tlv(0, False, 12, b"hi")]
    contents = [o1, None, b"hi"]
    stream = refs.cat(*vals)

    def run(data):
        r = _asn1.ASN1Reader(data)
        obs = []
        last = None
        for op in hist:
            if op == "p":
                last = r.peek_header()
                obs.append(("p", last.tag.tag_number, last.tag_length, last.length))
            elif op == "s":
                r.skip_value(last)
                obs.append(("s",))
            elif op == "o":
                obs.append(("o", r.read_octet_string()))
            elif op == "i":
                obs.append(("i", r.read_integer()))
            elif op == "u":
                obs.append(("u", r.read_utf8_string()))
            elif op == "r":
                obs.append(("r", r.get_remaining_data()))
            else:
                obs.append(("b", bool(r)))
        return obs

    obs = c.interpret(run, stream)
    # reference: a cursor over the three values
    pos, ok = 0, []
    for op, ob in zip(hist, obs):
        if op == "p":
            hdr_len = len(vals[pos]) - (len(contents[pos]) if contents[pos] is not None else len(refs.der_int_content(a)))
            body_len = len(vals[pos]) - hdr_len
            ok.append(all_of([ob[1] == (4, 2, 12)[pos], ob[2] == hdr_len, ob[3] == body_len]))
        elif op == "s":
            pos += 1
        elif op == "o":
            ok.append(pos == 0 and refs.cat(ob[1]) == o1)
            pos += 1
        elif op == "i":
            ok.append(pos == 1 and ob[1] == a)
            pos += 1
        elif op == "u":
            ok.append(pos == 2 and ob[1] == "hi")
            pos += 1
        elif op == "r":
            ok.append(refs.cat(ob[1]) == refs.cat(*vals[pos:]) if pos < 3 else len(ob[1]) == 0)
            pos = 3
        else:
            ok.append(ob[1] == (pos < 3))
    c.check(all_of([x if isinstance(x, (bool, V.SymBool)) else bool(x) for x in ok]), "reader history: every operation acted at the current position")
    return len(obs)


@harness(P, per_job=True, params=lambda tier: [dict(n=n) for n in ([1, 2] if tier == "quick" else [1, 2, 3])], max_steps=400000,
         bounds="UTF8String whose first n code points are solver variables over the whole of Unicode except the surrogates (every UTF-8 length class, U+FEFF and other format "
         "characters included), followed by 'z': the content equals an independent RFC 3629 encoding and reads back as the same text", outside="longer symbolic prefixes",
         must_reach=("utf8 text: content is the RFC 3629 encoding", "utf8 text: read back"))
def utf8_text(c, n):
    cps = [c.int(f"cp{i}", 0, 0x10FFFF) for i in range(n)]
    for cp in cps:
        c.assume(any_of([cp < 0xD800, cp > 0xDFFF]))
    text = V.SymStr([("chr", cp) for cp in cps] + ["z"]).norm() if c.symbolic else "".join(chr(cp) for cp in cps) + "z"
    content = refs.cat(*[refs.utf8_of(cp) for cp in cps], b"z")
    enc = c.call(_asn1._pack_asn1_utf8_string, text)
    c.check(enc == refs.der_tlv(0, False, 12, content), "utf8 text: content is the RFC 3629 encoding")
    v, used = c.call(_asn1._read_asn1_utf8_string, enc)
    c.check(all_of([v == text, used == len(enc)]), "utf8 text: read back")
    return used


TEXTS = ["e\u0301", "A\u030a", "\u212b", "\u2126", "\uf900", "\u1100\u1161\u11a8", "a\u0323\u0307", "\ufb01", "\u00e9", "\u1e9b\u0323", "\u0130", "\u00df", "\U0001f468\u200d\U0001f469"]


@harness(P, per_job=True, params=[dict(i=i) for i in range(len(TEXTS))],
         bounds="13 listed texts that are NOT in Unicode normalisation form C or that change under case mapping / compatibility mapping (combining sequences, singletons, Hangul jamo, "
         "ligatures, a ZWJ sequence): the UTF8String content is the UTF-8 of exactly the code points given, and reads back as the same string", outside="other texts",
         must_reach=("listed text: written and read back code point for code point",))
def text_list(c, i):
    text = TEXTS[i]
    content = text.encode("utf-8")
    enc = c.call(_asn1._pack_asn1_utf8_string, text)
    v, used = c.call(_asn1._read_asn1_utf8_string, enc)
    c.check(all_of([refs.cat(enc) == refs.der_tlv(0, False, 12, content), v == text, used == len(enc)]), "listed text: written and read back code point for code point")
    return used

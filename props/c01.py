"""C01 - protect then unprotect returns the plaintext for every input, config and time."""
from __future__ import annotations

import dpapi_ng
from dpapi_ng import _blob

from vlib.api import harness

from . import e2e, refs
from .world import seq_eq

META = dict(assumptions=[
    "ideal KDF (a function with fresh outputs), ideal AES-GCM and AES key wrap (decrypt/unwrap return the recorded plaintext iff key, nonce and the complete ciphertext are "
    "equal), RNG = fresh symbols, clock = solver variable inside the listed windows; bit-level behaviour of `cryptography` is outside the claim",
    "that the clock->(L0,L1,L2) mapping is right for every instant is C09's claim; that the derivation is the MS-GKDI chain for every position is C02's; C01 composes them",
])
P = "C01"
HASHES = ["SHA1", "SHA256", "SHA384", "SHA512"]


def _params(tier):
    out = []
    lens_q = [0, 1, 15, 16, 17, 31, 32, 33, 127, 128, 129, 255, 256, 257]
    # windows: (l0, l1, l2, ticks before, ticks after) - each contains an interval boundary
    b = e2e.B
    wins_q = [("L2 boundary", (361, 7, 13, 2, 2)), ("L1 boundary", (361, 8, 0, 2, 2)), ("L0 boundary", (362, 0, 0, 2, 2)), ("inside", (361, 31, 31, -5, 9))]
    if tier == "quick":
        for i, n in enumerate(lens_q):
            name, w = wins_q[i % 4]
            out.append(dict(n=n, hash_name=HASHES[i % 4], win=w, layout=("envelope", "trailing")[i % 2], flavour=("sync", "async")[(i // 2) % 2], sid=e2e.SIDS[i % 5],
                            same_cache=(i % 4 == 3 or i % 3 == 0)))
        return out
    lens_t = lens_q + [65519, 65520, 65535, 65536, 70000]
    for i, n in enumerate(lens_t):
        for j, (name, w) in enumerate(wins_q):
            out.append(dict(n=n, hash_name=HASHES[(i + j) % 4], win=w, layout=("envelope", "trailing")[(i + j) % 2], flavour=("sync", "async")[(i // 2 + j) % 2], sid=e2e.SIDS[(i + j) % 5],
                            same_cache=bool((i + j) % 2)))
    # wide windows: many L1/L2 values (every value of L2 and several L1 boundaries), other epochs
    for l0 in (270, 361, 430, 564):
        for h in HASHES:
            out.append(dict(n=5, hash_name=h, win=(l0, 3, 0, 40 * b, 40 * b), layout="envelope", flavour="sync", sid=e2e.SIDS[1], same_cache=(l0 % 2 == 0)))
    out.append(dict(n=5, hash_name="SHA256", win=(361, 0, 0, 2, 1023 * b), layout="trailing", flavour="sync", sid=e2e.SIDS[0], same_cache=True))
    out.append(dict(n=5, hash_name="SHA1", win=(361, 0, 0, 2, 1023 * b), layout="envelope", flavour="async", sid=e2e.SIDS[2], same_cache=False))
    return out


@harness(P, per_job=True, params=_params, max_steps=1500000,
         bounds="nonce mode; plaintext lengths {0,1,15,16,17,31,32,33,127,128,129,255,256,257} (+{65519,65520,65535,65536,70000} thorough) with symbolic content (first/last 17 octets "
         "above 48 bytes); 4 KDF hashes; 64 symbolic root-key bytes; clock symbolic inside windows that contain an L2, an L1 and an L0 boundary (+- 2 ticks) and one inside an interval "
         "(thorough: 80 h wide windows in 4 epochs and one whole L0 period = every (L1,L2)); both blob layouts; sync and async API; decryption through the same KeyCache object or through a fresh one loaded with the same root key; 5 SID shapes (1..15 sub-authorities, 0 and 2^32-1)",
         outside="other plaintext lengths; clock instants outside the windows (C09 + C02 cover the mapping and the derivation for every instant/position); SIDs not listed; public-key "
         "mode (roundtrip_public_key); bit-level crypto", must_reach=("unprotect(protect(x)) == x",))
def roundtrip(c, n, hash_name, win, layout, flavour, sid, same_cache):
    lo, hi = e2e.window(*win)
    w = e2e.new_world(c, lo, hi)
    pt = e2e.plaintext(c, n)
    root = c.bytes("root", 64)
    cache = e2e.loaded_cache(c, root, hash_name)
    if flavour == "sync":
        blob = c.call(dpapi_ng.ncrypt_protect_secret, pt, sid, root_key_identifier=e2e.RK, cache=cache)
    else:
        blob = c.call_async(dpapi_ng.async_ncrypt_protect_secret, pt, sid, root_key_identifier=e2e.RK, cache=cache)
    if layout == "trailing":
        blob = c.call(c.call(_blob.DPAPINGBlob.unpack, blob).pack, blob_in_envelope=False)
    # either the same KeyCache object decrypts, or a different process does (fresh cache, same root key)
    cache2 = cache if same_cache else e2e.loaded_cache(c, root, hash_name)
    if flavour == "sync":
        out = c.call(dpapi_ng.ncrypt_unprotect_secret, blob, cache=cache2)
    else:
        out = c.call_async(dpapi_ng.async_ncrypt_unprotect_secret, blob, cache=cache2)
    c.check(seq_eq(out, pt), "unprotect(protect(x)) == x")
    return len(refs.cat(blob))


def _pk_params(tier):
    algs = ["DH", "ECDH_P256", "ECDH_P384"]
    if tier == "quick":
        return [dict(alg=a, hash_name=HASHES[(i + 1) % 4], layout=("envelope", "trailing")[i % 2], flavour=("sync", "async")[i % 2], n=[16, 0, 33][i]) for i, a in enumerate(algs)]
    return [dict(alg=a, hash_name=h, layout=("envelope", "trailing")[(i + j) % 2], flavour=("sync", "async")[(i + j) % 2], n=[0, 1, 16, 33, 257][(i + j) % 5])
            for i, a in enumerate(algs) for j, h in enumerate(HASHES)]


@harness(P, per_job=True, params=_pk_params, raises=(e2e.ScalarOutOfRange,), max_steps=3000000,
         bounds="public-key mode (the caller only receives the group public key): DH over the RFC 5114 group, ECDH P256, ECDH P384 x hashes (3 combinations quick, all 12 thorough); the "
         "group public key is derived by the harness playing the DC (MS-GKDI 3.1.4.1.2) from the symbolic root key for the interval containing the (fixed) clock; the blob is decrypted "
         "by a holder of the root key; both layouts, sync and async API, symbolic plaintext of listed lengths",
         outside="P521; other clock instants (C09/C02); bit-level crypto and DH algebra beyond commutativity",
         must_reach=("public-key mode: unprotect(protect(x)) == x",))
def roundtrip_public_key(c, alg, hash_name, layout, flavour, n):
    from dpapi_ng import _client, _gkdi

    from .c17 import DC

    lo, _ = e2e.window(361, 9, 6, -5, -5)
    holder = {}

    def get_key(server, target_sd, root_key_id=None, l0=-1, l1=-1, l2=-1, **kw):
        holder["asked"] = (l0, l1, l2)
        return c.call(_gkdi.GroupKeyEnvelope.unpack, holder["dc"].envelope(target_sd, e2e.RK, 361, 9, 6))

    async def aget_key(*a, **k):
        return get_key(*a, **k)

    w = e2e.new_world(c, lo, lo, extra=[(_client._sync_get_key, get_key), (_client._async_get_key, aget_key)])
    root = c.bytes("root", 64)
    dc = holder["dc"] = DC(c, w, None, hash_name, root, (361, 9, 6), alg, 0, "x")
    dc.domain = "domain.test"
    pt = e2e.plaintext(c, n)
    sid = e2e.SIDS[1]
    if flavour == "sync":
        blob = c.call(dpapi_ng.ncrypt_protect_secret, pt, sid, server="dc")
    else:
        blob = c.call_async(dpapi_ng.async_ncrypt_protect_secret, pt, sid, server="dc")
    if layout == "trailing":
        blob = c.call(c.call(_blob.DPAPINGBlob.unpack, blob).pack, blob_in_envelope=False)
    bits = {"DH": 512, "ECDH_P256": 256, "ECDH_P384": 384}[alg]
    oracle = e2e.loaded_cache(c, root, hash_name, secret_algorithm=alg, secret_parameters=dc.secret_params(alg) or None, private_key_length=bits,
                              public_key_length={"DH": 2048}.get(alg, bits))
    if flavour == "sync":
        out = c.call(dpapi_ng.ncrypt_unprotect_secret, blob, cache=oracle)
    else:
        out = c.call_async(dpapi_ng.async_ncrypt_unprotect_secret, blob, cache=oracle)
    c.check(seq_eq(out, pt), "public-key mode: unprotect(protect(x)) == x")
    c.check(holder["asked"] == (-1, -1, -1), "protect asks the DC for the current key")
    return True


# positions of the cached envelope relative to a blob made at (361, 7, 12|13): same interval, later L2 in the same L1 interval, the L1 interval just above with
# L2' below / equal / above the blob's L2 and L2' = 31, a far L1 interval, the last interval of the period
ENV_POS = [(7, 13), (7, 20), (7, 31), (8, 0), (8, 12), (8, 13), (8, 14), (8, 31), (9, 3), (20, 31), (31, 30), (31, 31)]


def _env_params(tier):
    if tier == "quick":
        return [dict(env_pos=p, hash_name=HASHES[i % 4], flavour=("sync", "async")[i % 2], layout=("envelope", "trailing")[(i // 2) % 2]) for i, p in enumerate(ENV_POS)]
    return [dict(env_pos=p, hash_name=h, flavour=("sync", "async")[(i + j) % 2], layout=("envelope", "trailing")[(i // 2 + j) % 2]) for i, p in enumerate(ENV_POS)
            for j, h in enumerate(HASHES)]


@harness(P, per_job=True, params=_env_params, max_steps=3000000,
         bounds="decryption by a process that never held the root key: its KeyCache holds one group key envelope a DC issued for a later position (12 listed positions relative to the "
         "blob's: same interval, later L2, the next L1 interval with L2' below / at / above the blob's L2 and = 31, far L1 intervals, (31,31)), built by the harness playing the DC "
         "(MS-GKDI 2.2.4 shape, independent chain on the ideal KDF). The blob is protected with the root key at a symbolic instant around an L2 boundary (positions (7,12) and (7,13)); "
         "17 symbolic plaintext octets; 4 hashes; both layouts; sync and async", outside="other relative positions (C02 decides the derivation for every pair of positions)",
         must_reach=("cached envelope: unprotect(protect(x)) == x",))
def roundtrip_cached_envelope(c, env_pos, hash_name, flavour, layout):
    from dpapi_ng import _gkdi

    from .c17 import DC

    lo, hi = e2e.window(361, 7, 13, 2, 2)
    w = e2e.new_world(c, lo, hi)
    pt = e2e.plaintext(c, 17)
    root = c.bytes("root", 64)
    sid = e2e.SIDS[1]
    cache = e2e.loaded_cache(c, root, hash_name)
    if flavour == "sync":
        blob = c.call(dpapi_ng.ncrypt_protect_secret, pt, sid, root_key_identifier=e2e.RK, cache=cache)
    else:
        blob = c.call_async(dpapi_ng.async_ncrypt_protect_secret, pt, sid, root_key_identifier=e2e.RK, cache=cache)
    if layout == "trailing":
        blob = c.call(c.call(_blob.DPAPINGBlob.unpack, blob).pack, blob_in_envelope=False)
    dc = DC(c, w, None, hash_name, root, (361,) + env_pos, "seed", 0, "x")
    dc.domain = "domain.test"
    sd = _blob.SIDDescriptor(sid).get_target_sd()
    env = c.call(_gkdi.GroupKeyEnvelope.unpack, dc.envelope(sd, e2e.RK, 361, env_pos[0], env_pos[1]))
    other = dpapi_ng.KeyCache()
    c.call(other._store_key, sd, env)
    if flavour == "sync":
        out = c.call(dpapi_ng.ncrypt_unprotect_secret, blob, cache=other)
    else:
        out = c.call_async(dpapi_ng.async_ncrypt_unprotect_secret, blob, cache=other)
    c.check(seq_eq(out, pt), "cached envelope: unprotect(protect(x)) == x")
    return True


@harness(P, per_job=True, params=lambda tier: [dict(layout=l, flavour=f, hi=h) for l, f in (("envelope", "sync"), ("trailing", "async")) for h in ([1 << 17] if tier == "quick" else [1 << 17, (1 << 24) + 5])],
         max_steps=3000000,
         bounds="plaintext whose LENGTH is a solver variable in [0, 2^17] (thorough also [0, 2^24+5]; opaque content): protect -> unprotect returns the plaintext for every length, i.e. "
         "across every DER length-form boundary of the nested CMS fields; nonce mode, SHA256, fixed clock, both layouts, sync / async",
         outside="content of long plaintexts (opaque); other configurations (listed-length harnesses)", must_reach=("symbolic length: unprotect(protect(x)) == x",))
def roundtrip_symlen(c, layout, flavour, hi):
    lo, _ = e2e.window(361, 9, 6, -5, -5)
    w = e2e.new_world(c, lo, lo)
    pt, L = c.blob("pt", 0, hi)
    root = c.bytes("root", 64)
    cache = e2e.loaded_cache(c, root, "SHA256")
    sid = e2e.SIDS[1]
    if flavour == "sync":
        blob = c.call(dpapi_ng.ncrypt_protect_secret, pt, sid, root_key_identifier=e2e.RK, cache=cache)
    else:
        blob = c.call_async(dpapi_ng.async_ncrypt_protect_secret, pt, sid, root_key_identifier=e2e.RK, cache=cache)
    if layout == "trailing":
        blob = c.call(c.call(_blob.DPAPINGBlob.unpack, blob).pack, blob_in_envelope=False)
    cache2 = e2e.loaded_cache(c, root, "SHA256")
    if flavour == "sync":
        out = c.call(dpapi_ng.ncrypt_unprotect_secret, blob, cache=cache2)
    else:
        out = c.call_async(dpapi_ng.async_ncrypt_unprotect_secret, blob, cache=cache2)
    c.check(seq_eq(out, pt), "symbolic length: unprotect(protect(x)) == x")
    return True


HIST_POS = [((361, 5, 3), (361, 9, 6)), ((361, 9, 6), (361, 5, 3)), ((361, 8, 31), (361, 9, 0)), ((361, 31, 31), (362, 0, 0)), ((361, 7, 12), (361, 7, 13))]


@harness(P, per_job=True, params=lambda tier: [dict(pos=p, flavour=("sync", "async")[i % 2], hash_name=HASHES[i % 4]) for i, p in enumerate(HIST_POS if tier == "quick" else HIST_POS + [(b, a) for a, b in HIST_POS[2:]])],
         max_steps=4000000,
         bounds="a history on ONE KeyCache holding the root key: protect at instant A, protect at instant B (5 listed pairs of positions: earlier/later L1 interval in both orders, "
         "across an L1 boundary, across an L0 boundary, neighbouring L2 intervals; thorough also reversed), then unprotect both blobs with the same cache and with a fresh one: all "
         "four decryptions return the plaintexts", outside="longer histories (C10), other position pairs",
         must_reach=("history: both blobs decrypt with the shared cache and with a fresh one",))
def roundtrip_history(c, pos, flavour, hash_name):
    import time

    state = {"now": None}
    w = e2e.new_world(c, extra=[(time.time_ns, lambda: state["now"])])
    root = c.bytes("root", 64)
    cache = e2e.loaded_cache(c, root, hash_name)
    sid = e2e.SIDS[2]
    pts, blobs = [c.bytes("pt_a", 7), c.bytes("pt_b", 9)], []
    for p, pt in zip(pos, pts):
        lo, _ = e2e.window(p[0], p[1], p[2], -5, -5)
        state["now"] = lo
        if flavour == "sync":
            blobs.append(c.call(dpapi_ng.ncrypt_protect_secret, pt, sid, root_key_identifier=e2e.RK, cache=cache))
        else:
            blobs.append(c.call_async(dpapi_ng.async_ncrypt_protect_secret, pt, sid, root_key_identifier=e2e.RK, cache=cache))
    oks = []
    for which in (cache, e2e.loaded_cache(c, root, hash_name)):
        for blob, pt in zip(blobs, pts):
            if flavour == "sync":
                out = c.call(dpapi_ng.ncrypt_unprotect_secret, blob, cache=which)
            else:
                out = c.call_async(dpapi_ng.async_ncrypt_unprotect_secret, blob, cache=which)
            oks.append(seq_eq(out, pt))
    from vlib.api import all_of

    c.check(all_of(oks), "history: both blobs decrypt with the shared cache and with a fresh one")
    return True

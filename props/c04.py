"""C04 - a modified blob never decrypts to different plaintext."""
from __future__ import annotations

from vlib.api import all_of, harness

from . import blobmut
from .world import seq_eq

META = dict(assumptions=[
    "ideal AEAD / key wrap: decrypt/unwrap return the recorded plaintext iff key, nonce and the complete ciphertext equal a record, otherwise raise; ideal KDF is a function "
    "with fresh, collision-free outputs. The check therefore establishes that every blob byte that can influence the returned bytes reaches the authenticated primitives "
    "unchanged and nothing bypasses them; the strength of GCM / AES-KW themselves is outside the claim.",
    "rekeyed_blob: outputs of the ideal KDF are unguessable - none equals a public constant the forger uses as key material (probability 2^-512 for the real KDF)",
])
P = "C04"


def _params(tier):
    out = []
    for layout in ("envelope", "trailing"):
        pos = blobmut.positions(tier, layout)
        if tier == "quick":
            pos = pos[:: 5 if layout == "envelope" else 13]
            kid = blobmut.blob_layout(layout)["kid"]
            pos = [q for q in pos if not (kid + 16 <= q < kid + 24)] + ([kid + 20] if layout == "envelope" else [])  # one L2 octet in quick, all in thorough
        out += [dict(kind="byte", p=p, layout=layout) for p in pos]
        n = blobmut.blob_layout(layout)["length"]
        lay = blobmut.blob_layout(layout)
        cuts = range(0, n) if tier == "thorough" else sorted(set(list(range(0, n, 29)) + [n - 1, n - 16, n - 17] + ([lay["cms_end"], lay["cms_end"] + 1, lay["cms_end"] + 16] if lay["cms_end"] < n else [])))
        out += [dict(kind="trunc", p=p, layout=layout) for p in cuts]
        step = 1 if tier == "thorough" else 41
        out += [dict(kind="delete", p=p, layout=layout) for p in range(0, n, step)]
        out += [dict(kind="insert", p=p, layout=layout) for p in range(0, n + 1, step)]
    if tier == "thorough":
        lay = blobmut.blob_layout("envelope")
        st = lay["structural"]
        out += [dict(kind="byte2", p=(st[i], st[(i * 7 + 3) % len(st)]), layout="envelope") for i in range(0, len(st), 5) if st[i] != st[(i * 7 + 3) % len(st)]]
    return out


@harness(P, params=_params, raises=(Exception,), max_steps=1500000,
         bounds="a valid blob produced symbolically by protect (SHA512, nonce mode, 5 symbolic plaintext bytes, symbolic root key / CEK / nonces / ciphertext; in-envelope and trailing "
         "layout), then: one byte at position p replaced by a symbolic value (all 256 values, hence all 8 single-bit flips) for every structural position (TLV identifier/length "
         "octets, key-identifier fixed fields, first/last content octet of every field; quick: every 5th/13th of them, thorough: every position of the blob); truncation at listed / "
         "every length; deletion and insertion of one (symbolic) byte at listed / every position; thorough: two-site substitutions over structural positions",
         outside="other configurations (hash / public-key mode) and plaintext lengths; more than two altered sites", must_reach=())
def altered_blob(c, kind, p, layout):
    # structure-shifting alterations are run on a blob whose opaque contents (keys, nonces, ciphertext) are fixed pseudo-random octets: with symbolic contents a
    # shifted parse reads solver variables as ASN.1 headers and one position alone exceeded 60000 paths; content octets themselves are altered on the symbolic blob
    lay = blobmut.blob_layout(layout)
    concrete = not (kind == "byte" and p in lay["edges"])
    w, pt, out = blobmut.unprotect_altered(c, kind, p, layout, concrete=concrete)
    c.check(seq_eq(out, pt), "an altered blob decrypted to different plaintext")
    return True


def _rekey_params(tier):
    secrets = ["empty", "zeros", "key_info", "root_key_id", "target_sd"]
    if tier == "quick":
        pos = [(31, 31), (31, 30), (30, 31), (0, 0), (9, 6)]
        return [dict(pos=p, secret=secrets[i % 5], layout=("envelope", "trailing")[i % 2]) for i, p in enumerate(pos)] + [dict(pos=(31, 31), secret=s, layout="envelope") for s in secrets[1:]]
    out = [dict(pos=(a, b), secret="empty", layout=("envelope", "trailing")[(a + b) % 2]) for a in range(32) for b in range(32)]
    # 'zeros' has the length of a derived key, so every derived key gets a disequality with it: kept to positions with short derivation chains
    out += [dict(pos=p, secret=s, layout="envelope") for p in [(31, 31), (31, 30), (30, 31), (0, 0), (0, 31), (31, 0), (9, 6)] for s in secrets[1:]
            if s != "zeros" or p[0] >= 30]
    return out


@harness(P, per_job=True, params=_rekey_params, raises=(Exception,), max_steps=3000000,
         bounds="multi-site mutation by a party that holds no secret: of a valid blob, the key identifier's L1/L2 are set to a listed position (quick: 5; thorough: every (L1,L2) in [0,31]^2), "
         "key_info to 32 symbolic octets, the wrapped CEK to an ideal key wrap of a forger-chosen CEK under KDF(SHA512, s, 'KDS service', key_info) for a publicly known s "
         "(empty, 64 zero octets, key_info itself, the root key id, the target SD), and nonce + content to the forger's own AES-GCM output over symbolic bytes; decryption "
         "with the root key must fail (the victim's KEK must depend on the root key)", outside="forgeries built from other public values",
         must_reach=("rekeyed blob built",))
def rekeyed_blob(c, pos, secret, layout):
    import dataclasses

    import dpapi_ng
    from cryptography.hazmat.primitives import hashes
    from dpapi_ng import _blob

    from . import e2e, refs

    w, pt, root, blob = blobmut.make_blob(c, layout="envelope")
    y = c.call(_blob.DPAPINGBlob.unpack, blob)
    ki = c.bytes("forged_key_info", 32)
    sd = _blob.SIDDescriptor(e2e.SIDS[1]).get_target_sd()
    s = {"empty": b"", "zeros": bytes(64), "key_info": ki, "root_key_id": e2e.RK.bytes_le, "target_sd": sd}[secret]
    if secret in ("empty", "zeros", "root_key_id", "target_sd"):
        w.declare_public(s)  # derived keys are unguessable: none of them equals this constant (2^-512 for a real KDF)
    kek = w.kdf(hashes.SHA512(), s, "KDS service\0".encode("utf-16-le"), ki, 32)
    cek, evil, nonce = c.bytes("forged_cek", 32), c.bytes("evil", blobmut.PT_LEN), c.bytes("forged_nonce", 12)
    enc_cek = w.aes_key_wrap(kek, cek)
    content = w.aesgcm_class()(cek).encrypt(nonce, evil, None)
    kid = dataclasses.replace(y.key_identifier, l1=pos[0], l2=pos[1], key_info=ki)
    forged = _blob.DPAPINGBlob(kid, y.protection_descriptor, enc_cek, y.enc_cek_algorithm, None, content, y.enc_content_algorithm, refs.ref_gcm_parameters(nonce))
    bad = c.call(forged.pack, blob_in_envelope=(layout == "envelope"))
    c.reach("rekeyed blob built")
    out = c.call(dpapi_ng.ncrypt_unprotect_secret, bad, cache=e2e.loaded_cache(c, root, "SHA512"))
    c.check(seq_eq(out, pt), "an altered blob decrypted to different plaintext")
    return True


@harness(P, per_job=True, params=lambda tier: [dict(tamper=t, hi=h) for t in ("none", "truncate", "drop_prefix", "cut_middle", "extend") for h in ([1 << 18] if tier == "quick" else [1 << 18, (1 << 21) + 77])],
         raises=(Exception,), max_steps=2000000,
         bounds="content_encrypt / content_decrypt on a message whose LENGTH is a solver variable in [0, 2^18] (thorough: also [0, 2^21+77]; opaque content): the sealed message is kept whole, "
         "truncated to any shorter length, stripped of any non-empty prefix, has any non-empty middle slice removed, or has any non-empty part of itself appended; every cut point is a "
         "solver variable. Only the whole message may decrypt, and to the original; this holds whatever chunking the implementation uses internally (one-shot or streaming GCM)",
         outside="alterations of content octets of long messages (the listed-length harness alters octets of short ones); lengths above the bound",
         must_reach=("long content: tampered message built",))
def large_content(c, tamper, hi):
    from dpapi_ng import _crypto

    from . import e2e, refs

    w = e2e.new_world(c)
    cek, nonce = c.bytes("cek", 32), c.bytes("nonce", 12)
    params = refs.ref_gcm_parameters(nonce)
    alg = "2.16.840.1.101.3.4.1.46"
    pt, L = c.blob("pt", 0, hi)
    ct = c.call(_crypto.content_encrypt, alg, params, cek, pt)
    n = L + 16
    a, b = c.int("cut_a", 0, hi + 16), c.int("cut_b", 0, hi + 16)
    if tamper == "none":
        bad = ct
    elif tamper == "truncate":
        c.assume(a < n)
        bad = ct[:a]
    elif tamper == "drop_prefix":
        c.assume(all_of([a >= 1, a <= n]))
        bad = ct[a:]
    elif tamper == "cut_middle":
        c.assume(all_of([a < b, b <= n]))
        bad = refs.cat(ct[:a], ct[b:]) if not c.symbolic else ct[:a] + ct[b:]
    else:
        c.assume(all_of([a < b, b <= n]))
        bad = refs.cat(ct, ct[a:b]) if not c.symbolic else ct + ct[a:b]
    c.reach("long content: tampered message built")
    out = c.call(_crypto.content_decrypt, alg, params, cek, bad)
    c.check(seq_eq(out, pt) if tamper == "none" else False, "an altered blob decrypted to different plaintext" if tamper != "none" else "long content: whole message decrypts to the original")
    return True


@harness(P, per_job=True, params=lambda tier: [dict(group=g, layout=l) for g, l in ([("own", "envelope"), ("root", "envelope")] if tier == "quick" else
                                                                                 [("own", "envelope"), ("own", "trailing"), ("root", "envelope"), ("root", "trailing")])],
         raises=(Exception,), max_steps=4000000,
         bounds="multi-site mutation into PUBLIC-KEY mode by a party that holds no secret, against a holder of a DH root key: the key identifier's public-key flag is set and key_info "
         "replaced by a well-formed FFC DH public key that is either entirely the forger's (key_length 4: symbolic 32-bit modulus, generator and public value) or in the root key's "
         "own group (RFC 5114 2048-bit p and g; public value and committed secret symbolic within 0..8 and p-4..p+4, i.e. the degenerate elements, ordinary elements and values >= p); the wrapped CEK is an ideal key wrap under the KEK that follows from a shared secret the forger "
         "commits to (a symbolic value), nonce + content are the forger's. Modular exponentiation obeys its exponent-independent laws (modulus 1; base 0, 1, p-1), and an element "
         "with an unknown exponent cannot be guessed in the root key's group but can in a group the forger chose. Decryption must fail.",
         outside="elements of small order > 2 in the root key's group (small-subgroup confinement needs the subgroup order q, which MS-GKDI DH parameters do not carry); ECDH forgeries",
         must_reach=("public-key forgery built",))
def rekeyed_public_key(c, group, layout):
    import dataclasses

    import dpapi_ng
    from cryptography.hazmat.primitives import hashes
    from dpapi_ng import _blob, _gkdi

    from symex import values as V

    from . import e2e, refs

    w, pt, root, blob = blobmut.make_blob(c, layout="envelope")  # the victim's valid blob (nonce mode, made with a root-key cache)
    y = c.call(_blob.DPAPINGBlob.unpack, blob)
    holder = dpapi_ng.KeyCache()
    holder.load_key(b"", e2e.RK)
    prm = _gkdi.FFCDHParameters.unpack(holder._root_keys[e2e.RK].secret_parameters)  # the root key's DH group (library default: RFC 5114 2.3)
    if group == "own":
        kl = 4
        p, g, pub = c.int("forged_p", 0, (1 << 32) - 1), c.int("forged_g", 0, (1 << 32) - 1), c.int("forged_y", 0, (1 << 32) - 1)
    else:
        kl, p, g = prm.key_length, prm.field_order, prm.generator
        # public value and committed shared secret near the two ends of the group: 0..8 and p-4..p+4 (degenerate and ordinary elements, values >= p)
        pub = [0, p - 4][c.concretize(c.int("forged_y_anchor", 0, 1))] + c.int("forged_y_delta", 0, 8)
    key_info = refs.ref_ffcdh_key(kl, p, g, pub)
    if group == "own":
        guess = c.int("forged_shared_secret", 0, (1 << (8 * kl)) - 1)
    else:
        guess = [0, p - 4][c.concretize(c.int("forged_guess_anchor", 0, 1))] + c.int("forged_guess_delta", 0, 8)
    w.algebra.declare_guess(guess, prm.field_order)
    label, ctx = "KDS service\0".encode("utf-16-le"), "KDS public key\0".encode("utf-16-le")
    gb = guess.to_bytes(kl, "big")
    secret = w.kdf_concat(hashes.SHA256(), gb, "SHA512\0".encode("utf-16-le"), ctx, label, 32)
    kek = w.kdf(hashes.SHA512(), secret, label, ctx, 32)
    cek, evil, nonce = c.bytes("forged_cek", 32), c.bytes("evil", blobmut.PT_LEN), c.bytes("forged_nonce", 12)
    enc_cek = w.aes_key_wrap(kek, cek)
    content = w.aesgcm_class()(cek).encrypt(nonce, evil, None)
    kid = dataclasses.replace(y.key_identifier, flags=y.key_identifier.flags | 1, key_info=key_info)
    forged = _blob.DPAPINGBlob(kid, y.protection_descriptor, enc_cek, y.enc_cek_algorithm, None, content, y.enc_content_algorithm, refs.ref_gcm_parameters(nonce))
    bad = c.call(forged.pack, blob_in_envelope=(layout == "envelope"))
    c.reach("public-key forgery built")
    victim = e2e.loaded_cache(c, root, "SHA512", secret_algorithm="DH", secret_parameters=prm.pack(), private_key_length=512, public_key_length=2048)
    out = c.call(dpapi_ng.ncrypt_unprotect_secret, bad, cache=victim)
    c.check(seq_eq(out, pt), "an altered blob decrypted to different plaintext")
    return True


OTHER_CONTENT_OIDS = ["2.16.840.1.101.3.4.1.42", "2.16.840.1.101.3.4.1.2", "2.16.840.1.101.3.4.1.22", "2.16.840.1.101.3.4.1.6", "2.16.840.1.101.3.4.1.26",
                      "2.16.840.1.101.3.4.1.41", "2.16.840.1.101.3.4.1.44", "1.2.840.113549.3.7", "2.16.840.1.101.3.4.1.45", "2.16.840.1.101.3.4.1.46"]


@harness(P, per_job=True, params=lambda tier: [dict(oid=o, par=p_, cut=k, layout=l) for i, o in enumerate(OTHER_CONTENT_OIDS) for p_, k, l in
                                               ([[("iv16", 16, "envelope")], [("gcm", 16, "trailing")], [("iv16", 21, "envelope")]][i % 3] if tier == "quick" else
                                                [(a, b, ll) for a in ("iv16", "gcm", "iv12") for b in (16, 21, 0) for ll in ("envelope", "trailing")])],
         raises=(Exception,), max_steps=3000000,
         bounds="algorithm downgrade: of a valid blob the content-encryption OID is replaced by one of 10 listed OIDs (AES-CBC 128/192/256, AES-GCM 128/192, AES-ECB, AES-CCM, 3DES-CBC, "
         "AES key wrap, and AES256-GCM itself), the parameters by an OCTET STRING of 16 / 12 symbolic octets or left as the GCM parameters, and the content cut to its first 16 "
         "octets, left whole, or emptied; the wrapped CEK and key identifier stay genuine. Any cipher mode other than GCM decrypts without authentication in the stub world "
         "(output = fresh octets, PKCS#7 unpadding succeeds when they happen to be validly padded). Decryption must fail or return the original plaintext",
         outside="OIDs not listed; downgrades of the key-wrap algorithm", must_reach=("downgraded blob built",))
def downgrade(c, oid, par, cut, layout):
    import dpapi_ng
    from dpapi_ng import _blob

    from . import e2e, refs

    w, pt, root, blob = blobmut.make_blob(c, layout="envelope")
    y = c.call(_blob.DPAPINGBlob.unpack, blob)
    params = {"iv16": lambda: refs.der_octets(c.bytes("forged_iv", 16)), "iv12": lambda: refs.der_octets(c.bytes("forged_iv", 12)), "gcm": lambda: y.enc_content_parameters}[par]()
    content = refs.cat(y.enc_content)
    content = content[:cut] if cut else (content if cut is None else b"")
    if cut == 21:
        content = refs.cat(y.enc_content)
    forged = _blob.DPAPINGBlob(y.key_identifier, y.protection_descriptor, y.enc_cek, y.enc_cek_algorithm, None, content, oid, params)
    bad = c.call(forged.pack, blob_in_envelope=(layout == "envelope"))
    c.reach("downgraded blob built")
    out = c.call(dpapi_ng.ncrypt_unprotect_secret, bad, cache=e2e.loaded_cache(c, root, "SHA512"))
    c.check(seq_eq(out, pt), "an altered blob decrypted to different plaintext")
    return True

"""C04 - a modified blob never decrypts to different plaintext."""
from __future__ import annotations

from vlib.api import harness

from . import blobmut
from .world import seq_eq

META = dict(assumptions=[
    "ideal AEAD / key wrap: decrypt/unwrap return the recorded plaintext iff key, nonce and the complete ciphertext equal a record, otherwise raise; ideal KDF is a function "
    "with fresh, collision-free outputs. The check therefore establishes that every blob byte that can influence the returned bytes reaches the authenticated primitives "
    "unchanged and nothing bypasses them; the strength of GCM / AES-KW themselves is outside the claim.",
])
P = "C04"


def _params(tier):
    out = []
    for layout in ("envelope", "trailing"):
        pos = blobmut.positions(tier, layout)
        if tier == "quick":
            pos = pos[:: 5 if layout == "envelope" else 13]
            kid = blobmut.blob_layout(layout)["kid"]
            pos = [q for q in pos if not (kid + 16 <= q < kid + 24)] + ([kid + 20] if layout == "envelope" else [])  # one L2 octet in quick, all in thorough
        out += [dict(kind="byte", p=p, layout=layout) for p in pos]
        n = blobmut.blob_layout(layout)["length"]
        lay = blobmut.blob_layout(layout)
        cuts = range(0, n) if tier == "thorough" else sorted(set(list(range(0, n, 29)) + [n - 1, n - 16, n - 17] + ([lay["cms_end"], lay["cms_end"] + 1, lay["cms_end"] + 16] if lay["cms_end"] < n else [])))
        out += [dict(kind="trunc", p=p, layout=layout) for p in cuts]
        step = 1 if tier == "thorough" else 41
        out += [dict(kind="delete", p=p, layout=layout) for p in range(0, n, step)]
        out += [dict(kind="insert", p=p, layout=layout) for p in range(0, n + 1, step)]
    if tier == "thorough":
        lay = blobmut.blob_layout("envelope")
        st = lay["structural"]
        out += [dict(kind="byte2", p=(st[i], st[(i * 7 + 3) % len(st)]), layout="envelope") for i in range(0, len(st), 5) if st[i] != st[(i * 7 + 3) % len(st)]]
    return out


@harness(P, params=_params, raises=(Exception,), max_steps=1500000,
         bounds="a valid blob produced symbolically by protect (SHA512, nonce mode, 5 symbolic plaintext bytes, symbolic root key / CEK / nonces / ciphertext; in-envelope and trailing "
         "layout), then: one byte at position p replaced by a symbolic value (all 256 values, hence all 8 single-bit flips) for every structural position (TLV identifier/length "
         "octets, key-identifier fixed fields, first/last content octet of every field; quick: every 5th/13th of them, thorough: every position of the blob); truncation at listed / "
         "every length; deletion and insertion of one (symbolic) byte at listed / every position; thorough: two-site substitutions over structural positions",
         outside="other configurations (hash / public-key mode) and plaintext lengths; more than two altered sites", must_reach=())
def altered_blob(c, kind, p, layout):
    # structure-shifting alterations are run on a blob whose opaque contents (keys, nonces, ciphertext) are fixed pseudo-random octets: with symbolic contents a
    # shifted parse reads solver variables as ASN.1 headers and one position alone exceeded 60000 paths; content octets themselves are altered on the symbolic blob
    lay = blobmut.blob_layout(layout)
    concrete = not (kind == "byte" and p in lay["edges"])
    w, pt, out = blobmut.unprotect_altered(c, kind, p, layout, concrete=concrete)
    c.check(seq_eq(out, pt), "an altered blob decrypted to different plaintext")
    return True

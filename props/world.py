"""Environment stubs shared by the harnesses: ideal KDF / AEAD / key-wrap, RNG, clock, Diffie-Hellman algebra.

Every stub is an *assumption of the claim* (DESIGN.md 2.5).  All of them work in both modes: on symbolic proxies
(symbolic mode) and on plain bytes (native replay)."""
from __future__ import annotations

import os
import time

from cryptography.exceptions import InvalidTag
from cryptography.hazmat.primitives import keywrap
from cryptography.hazmat.primitives.asymmetric import ec
from cryptography.hazmat.primitives.ciphers.aead import AESGCM
from cryptography.hazmat.primitives.kdf.concatkdf import ConcatKDFHash
from cryptography.hazmat.primitives.kdf.kbkdf import KBKDFHMAC

from symex import values as V
from vlib.api import all_of, any_of, truth


def refs_cat(*parts):
    from . import refs

    return refs.cat(*parts)


def _cat(parts):
    """concatenation of byte strings, some of which may have symbolic length"""
    if any(isinstance(x, V.SymBlob) for x in parts):
        out = V.SymBlob([])
        for x in parts:
            out = out + V.SymBlob.of(x.tobytes() if isinstance(x, V.SymBlob) else x)
        return out
    return refs_cat(*parts) if parts else b""


def _sb(x):
    return x if isinstance(x, (bool, V.SymBool)) else bool(x)


def seq_eq(a, b):
    """bytes equality -> bool | SymBool (no fork)"""
    if isinstance(a, (bytes, bytearray, memoryview)) and isinstance(b, (bytes, bytearray, memoryview)):
        return bytes(a) == bytes(b)
    if not V.is_byteslike(a) or not V.is_byteslike(b):
        return a is b
    if isinstance(a, V.SymBlob) or isinstance(b, V.SymBlob):
        return V.SymBlob.of(a) == V.SymBlob.of(b)  # symbolic lengths: decided segment-wise
    if not isinstance(a, V.SymSeq):
        a = V.SymBytes(list(bytes(a)))
    return a == b


def same_syms(a, b):
    """syntactic identity of two byte sequences (same concrete values / same solver terms) - never forks"""
    import z3

    if not V.is_byteslike(a) or not V.is_byteslike(b):
        return False
    x, y = V.seq_items(a), V.seq_items(b)
    if len(x) != len(y):
        return False
    for p, q in zip(x, y):
        if isinstance(p, int) or isinstance(q, int):
            if not (isinstance(p, int) and isinstance(q, int) and p == q):
                return False
        elif p is not q and not z3.eq(z3.simplify(p.t), z3.simplify(q.t)):
            return False
    return True


def _identical(a, b):
    if a is b:
        return True
    if isinstance(a, (bytes, bytearray)) and isinstance(b, (bytes, bytearray)):
        return bytes(a) == bytes(b)
    if not V.is_byteslike(a) or not V.is_byteslike(b):
        return False
    if isinstance(a, V.SymBlob) or isinstance(b, V.SymBlob):
        return False
    x, y = V.seq_items(a), V.seq_items(b)
    if len(x) != len(y):
        return False
    for p, q in zip(x, y):
        if p is q:
            continue
        if isinstance(p, int) and isinstance(q, int) and p == q:
            continue
        return False
    return True


def lookup(records, key_parts, world=None):
    """find the record whose key parts are all equal to key_parts; forks only when equality is genuinely undecided.
    Two *different* whole outputs of the ideal primitives / RNG are assumed unequal (no collisions): the disequality is added
    to the path condition so that the path's model (used for the native cross-check and replays) respects it."""
    cands = []
    for rec in records:  # fast path: the very same objects / symbols
        if all(_identical(x, y) for x, y in zip(rec[0], key_parts)):
            return rec
    for rec in records:
        if world is not None and world.assume_distinct(rec[0], key_parts):
            continue
        eqs = []
        for x, y in zip(rec[0], key_parts):
            q = seq_eq(x, y)
            q = q if isinstance(q, (bool, V.SymBool)) else bool(q)
            eqs.append(q)
            if q is False:
                break
        if any(q is False for q in eqs):
            continue
        e = all_of(eqs)
        if e is True:
            return rec
        if e is not False:
            cands.append((e, rec))
    if not cands:
        return None
    if not truth(any_of([e for e, _ in cands])):
        return None
    for e, rec in cands:
        if truth(e):
            return rec
    return None


class World:
    """one instance per path"""

    def __init__(self, c, t_ns=None, concrete=False):
        self.c = c
        self.concrete = concrete  # outputs of the ideal primitives / RNG are fixed pseudo-random bytes instead of solver symbols
        self.n = 0
        self.kdf_records = {}
        self.concat_records = {}
        self.aead = []
        self.wraps = []
        self.draws = []  # (name, length, value) of every RNG draw, in order
        self.t_ns = t_ns
        self.kdf_calls = 0
        self.kdf_new = 0
        self.kdf_log = []  # captured constructor arguments (C03)
        self.origin = {}
        self.distinct = set()
        self.seen_values = set()
        self.fresh_vecs = []  # (first variable name, z3 term of the whole vector, length)
        self.public = []  # publicly known byte strings: outputs of the ideal primitives / RNG are assumed to differ from them (unguessable)
        if c.symbolic:
            c.e.at_path_end.append(self._no_collisions_in_model)

    def fresh(self, tag, n):
        self.n += 1
        if self.concrete:
            import hashlib

            out, i = b"", 0
            while len(out) < n:
                out += hashlib.sha256(f"{tag}{self.n}/{i}".encode()).digest()
                i += 1
            return out[:n]
        v = self.c.bytes(f"{tag}{self.n}", n)
        if self.public:
            self._check_unguessable(v, n)
        if n >= 12 and self.c.symbolic:
            items = V.seq_items(v)
            self.origin[id(items[0])] = (self.n, items)
            self.fresh_vecs.append((f"{tag}{self.n}", items, n))
        elif n >= 12:
            if bytes(v) in self.seen_values:
                from vlib.api import NativeAssumeFailed

                raise NativeAssumeFailed("concrete values violate the no-collision assumption of the ideal primitives")
            self.seen_values.add(bytes(v))
        return v

    def declare_public(self, value):
        """a byte string anybody can write down (constants, values readable from a blob): no output of the ideal primitives equals it"""
        value = bytes(value)
        self.public.append(value)
        for name, items, n in self.fresh_vecs:
            if n == len(value):
                self.c.assume(V.SymBytes(items) != value)

    def _check_unguessable(self, v, n):
        for p in self.public:
            if len(p) != n:
                continue
            if self.c.symbolic:
                self.c.assume(V.SymBytes(V.seq_items(v)) != p)
            elif bytes(v) == p:
                from vlib.api import NativeAssumeFailed

                raise NativeAssumeFailed("a fresh output equals a public constant (outside the unguessability assumption)")

    def _no_collisions_in_model(self, eng):
        """the path's model must respect the no-collision assumption: fresh vectors the path condition talks about are pairwise distinct
        (unconstrained ones get distinct pseudo-random defaults anyway)"""
        import z3

        used = [(name, items, n) for name, items, n in self.fresh_vecs if any(f"{name}[{i}]" in eng.used_vars for i in range(n))]
        for i in range(len(used)):
            for j in range(i + 1, len(used)):
                if used[i][2] == used[j][2]:
                    e = V.SymBytes(used[i][1]) == V.SymBytes(used[j][1])
                    if isinstance(e, V.SymBool):
                        eng.add(z3.Not(e.t))

    def whole_draw(self, seq):
        """draw number if seq is exactly one fresh vector (same solver symbols, same order), else None"""
        if not V.is_byteslike(seq) or not isinstance(seq, V.SymSeq):
            return None
        items = seq.items()
        if not items or isinstance(items[0], int):
            return None
        o = self.origin.get(id(items[0]))
        if o is None or len(o[1]) != len(items) or any(a is not b for a, b in zip(o[1], items)):
            return None
        return o[0]

    def assume_distinct(self, parts_a, parts_b):
        """True if some corresponding pair of parts are two different fresh draws: assumed unequal (ideal primitives / RNG never collide).
        No constraint is added to the path condition; the native mode checks that the concrete values it runs on respect the assumption."""
        if not self.c.symbolic:
            return False
        for x, y in zip(parts_a, parts_b):
            dx, dy = self.whole_draw(x), self.whole_draw(y)
            if dx is not None and dy is not None and dx != dy:
                return True
        return False

    # -- ideal KDF: a function; fresh output for new arguments
    KDF_CAP = 600  # one operation needs at most 67 key-derivation steps and no harness performs more than 8 operations; beyond the cap the work budget is exceeded

    def kdf(self, algorithm, secret, label, context, length):
        self.kdf_calls += 1
        self.c.count("kdf")
        length = self.c.concretize(length)
        key = (algorithm.name, bytes(label), length)
        recs = self.kdf_records.setdefault(key, [])
        hit = lookup(recs, (secret, context), self)
        if hit is not None:
            return hit[1]
        self.kdf_new += 1
        if self.kdf_new > self.KDF_CAP:  # distinct derivations: a runaway derivation loop produces a new one per iteration
            if self.c.symbolic:
                from symex.engine import BudgetExceeded

                raise BudgetExceeded(f"more than {self.KDF_CAP} distinct key-derivation steps")
            from vlib.api import NativeBudget

            raise NativeBudget()
        out = self.fresh("kdf", length)
        recs.append(((secret, context), out))
        return out

    def kdf_concat(self, algorithm, shared_secret, algorithm_id, party_uinfo, party_vinfo, length):
        key = (algorithm.name, bytes(algorithm_id), bytes(party_uinfo), bytes(party_vinfo), length)
        recs = self.concat_records.setdefault(key, [])
        hit = lookup(recs, (shared_secret,), self)
        if hit is not None:
            return hit[1]
        out = self.fresh("ckdf", length)
        recs.append(((shared_secret,), out))
        return out

    # -- RNG
    def urandom(self, n):
        n = self.c.concretize(n)
        v = self.fresh("rnd", n)
        self.draws.append(("urandom", n, v))
        return v

    def generate_key(self, bits):
        v = self.fresh("cek", bits // 8)
        self.draws.append(("generate_key", bits // 8, v))
        return v

    # -- clock
    def time_ns(self):
        return self.t_ns

    # -- ideal AES key wrap (RFC 3394 contract of cryptography.hazmat.primitives.keywrap)
    def aes_key_wrap(self, wrapping_key, key_to_wrap, backend=None):
        if len(wrapping_key) not in (16, 24, 32):
            raise ValueError("The wrapping key must be a valid AES key length")
        if len(key_to_wrap) < 16:
            raise ValueError("The key to wrap must be at least 16 bytes")
        if len(key_to_wrap) % 8 != 0:
            raise ValueError("The key to wrap must be a multiple of 8 bytes")
        out = self.fresh("wrapped", len(key_to_wrap) + 8)
        self.wraps.append(((wrapping_key, out), key_to_wrap))
        return out

    def aes_key_unwrap(self, wrapping_key, wrapped_key, backend=None):
        if len(wrapped_key) < 24:
            raise keywrap.InvalidUnwrap("Must be at least 24 bytes")
        if len(wrapped_key) % 8 != 0:
            raise keywrap.InvalidUnwrap("The wrapped key must be a multiple of 8 bytes")
        if len(wrapping_key) not in (16, 24, 32):
            raise ValueError("The wrapping key must be a valid AES key length")
        hit = lookup(self.wraps, (wrapping_key, wrapped_key), self)
        if hit is None:
            raise keywrap.InvalidUnwrap()
        return hit[1]

    # -- ideal AEAD
    def aesgcm_class(world):
        class IdealAESGCM:
            def __init__(self, key):
                if len(key) not in (16, 24, 32):
                    raise ValueError("AESGCM key must be 128, 192, or 256 bits.")
                self.key = key

            @staticmethod
            def generate_key(bit_length):
                return world.generate_key(bit_length)

            def encrypt(self, nonce, data, associated_data):
                if not 8 <= len(nonce) <= 128:
                    raise ValueError("Nonce must be between 8 and 128 bytes")
                n = V.blen(data)
                if isinstance(n, int) and n <= 4096:
                    ct = world.fresh("ct", n + 16)
                else:  # long / symbolic-length messages: opaque content
                    world.n += 1
                    ct = world.c.blob_of_len(f"ct{world.n}", n + 16)
                world.aead.append(((self.key, nonce, ct), data))
                return ct

            def decrypt(self, nonce, data, associated_data):
                if not 8 <= len(nonce) <= 128:
                    raise ValueError("Nonce must be between 8 and 128 bytes")
                if truth(V.blen(data) < 16):
                    raise InvalidTag()
                hit = lookup(world.aead, (self.key, nonce, data), world)
                if hit is None:
                    raise InvalidTag()
                return hit[1]

        return IdealAESGCM

    # -- the same ideal AEAD through cryptography's streaming interface (Cipher(AES(key), GCM(nonce[, tag])).decryptor()/encryptor())
    def streaming_stubs(world):
        from cryptography.hazmat.primitives.ciphers import Cipher, algorithms, modes

        class FakeAES:
            name = "AES"
            block_size = 128
            key_sizes = frozenset([128, 192, 256, 512])

            @property
            def key_size(self):
                return len(self.key) * 8

            def __init__(self, key):
                if len(key) not in (16, 24, 32):
                    raise ValueError("Invalid key size for AES.")
                self.key = key

        class FakeGCM:
            def __init__(self, initialization_vector, tag=None, min_tag_length=16):
                if not 8 <= len(initialization_vector) <= 128:
                    raise ValueError("initialization_vector must be between 8 and 128 bytes")
                if tag is not None and len(tag) < min_tag_length:
                    raise ValueError("Authentication tag must be 16 bytes or longer.")
                self.iv, self.tag = initialization_vector, tag

        class Decryptor:
            def __init__(self, key, mode):
                self.key, self.mode, self.seen, self.done = key, mode, [], False

            def authenticate_additional_data(self, data):
                if len(data):
                    raise NotImplementedError("AAD is not modelled")

            def _record(self):
                # the sealed message (under this key and nonce) whose ciphertext starts with what has been fed so far
                fed = _cat(self.seen)
                for (k, nonce, ct), pt in world.aead:
                    if truth(all_of([_sb(seq_eq(k, self.key)), _sb(seq_eq(nonce, self.mode.iv))])) and truth(V.blen(fed) <= V.blen(ct) - 16) and truth(_sb(seq_eq(fed, ct[: V.blen(fed)]))):
                        return ct, pt
                return None, None

            def update(self, data):
                off = sum(V.blen(x) for x in self.seen)
                self.seen.append(data)
                ct, pt = self._record()
                n = V.blen(data)
                if ct is None:
                    # decrypting unauthentic data yields unrelated octets
                    if isinstance(n, int) and n <= 4096:
                        return world.fresh("garbage", n) if n else b""
                    world.n += 1
                    return world.c.blob_of_len(f"garbage{world.n}", n)
                return pt[off : off + n]

            def _finish(self, tag):
                self.done = True
                ct, pt = self._record()
                fed = sum(V.blen(x) for x in self.seen)
                if ct is None or not truth(fed == V.blen(ct) - 16) or tag is None or not truth(_sb(seq_eq(tag, ct[V.blen(ct) - 16 :]))):
                    raise InvalidTag()
                return b""

            def finalize(self):
                return self._finish(self.mode.tag)

            def finalize_with_tag(self, tag):
                return self._finish(tag)

        class Encryptor:
            """streaming AES-GCM encryption: every update() yields fresh ciphertext octets of the same length; finalize() seals the message - the record
            (key, nonce, all ciphertext pieces + tag) -> all plaintext pieces is what decryption (one-shot or streaming) later recognises"""

            def __init__(self, key, mode):
                self.key, self.mode, self.pt, self.ct, self.tag_, self.done = key, mode, [], [], None, False

            def authenticate_additional_data(self, data):
                if V.blen(data):
                    raise NotImplementedError("AAD is not modelled")

            def update(self, data):
                if self.done:
                    raise ValueError("Context was already finalized.")
                n = V.blen(data)
                if isinstance(n, int) and n == 0:
                    return b""
                world.n += 1
                piece = world.c.bytes(f"ctpiece{world.n}", n) if isinstance(n, int) and n <= 4096 else world.c.blob_of_len(f"ctpiece{world.n}", n)
                self.pt.append(data)
                self.ct.append(piece)
                return piece

            def finalize(self):
                if self.done:
                    raise ValueError("Context was already finalized.")
                self.done = True
                self.tag_ = world.fresh("gcmtag", 16)
                world.aead.append(((self.key, self.mode.iv, _cat(self.ct + [self.tag_])), _cat(self.pt)))
                return b""

            @property
            def tag(self):
                if not self.done:
                    raise ValueError("You must finalize encryption before getting the tag.")
                return self.tag_

        class UnauthMode:
            """CBC / CTR / CFB / OFB / ECB ...: a mode that does not authenticate"""

            def __init__(self, *a, **k):
                self.args = a

        class UnauthDecryptor:
            """decryption without authentication succeeds on every input and yields octets unrelated to anything the harness knows"""

            def __init__(self):
                self.n = 0

            def update(self, data):
                n = V.blen(data)
                if isinstance(n, int) and n <= 4096:
                    return world.fresh("unauth", n) if n else b""
                world.n += 1
                return world.c.blob_of_len(f"unauth{world.n}", n)

            def finalize(self):
                return b""

        class FakeCipher:
            def __init__(self, algorithm, mode, backend=None):
                self.algorithm, self.mode = algorithm, mode

            def decryptor(self):
                if isinstance(self.mode, UnauthMode):
                    return UnauthDecryptor()
                return Decryptor(self.algorithm.key, self.mode)

            def encryptor(self):
                if isinstance(self.mode, UnauthMode):
                    raise NotImplementedError("encryption in an unauthenticated mode is not modelled")
                return Encryptor(self.algorithm.key, self.mode)

        class FakePKCS7:
            def __init__(self, block_size):
                self.block = block_size // 8

            def unpadder(self_):
                class Unpadder:
                    def __init__(self):
                        self.buf = []

                    def update(self, data):
                        self.buf.append(data)
                        return b""

                    def finalize(self):
                        data = _cat(self.buf)
                        n = V.blen(data)
                        if not truth(all_of([_sb(n > 0), _sb(n % self_.block == 0)])):
                            raise ValueError("Invalid padding bytes.")
                        k = data[n - 1]
                        if not truth(all_of([_sb(k >= 1), _sb(k <= self_.block)])):
                            raise ValueError("Invalid padding bytes.")
                        k = world.c.concretize(k)
                        tail = V.seq_items(data[n - k :])
                        if not truth(all_of([_sb(t == k) for t in tail])):
                            raise ValueError("Invalid padding bytes.")
                        return data[: n - k]

                return Unpadder()

            def padder(self):
                raise NotImplementedError("padding is not modelled")

        from cryptography.hazmat.primitives import padding

        unauth = [(getattr(modes, m), UnauthMode) for m in ("CBC", "CTR", "ECB", "XTS") if hasattr(modes, m)]
        return [(Cipher, FakeCipher), (algorithms.AES, FakeAES), (modes.GCM, FakeGCM), (padding.PKCS7, FakePKCS7)] + unauth

    def stubs(self, kdf_fn, kdf_concat_fn=None):
        """stub list: kdf_fn / kdf_concat_fn are dpapi_ng._crypto.kdf / kdf_concat (the wrappers themselves are C03's subject)"""
        pairs = [(kdf_fn, self.kdf), (AESGCM, self.aesgcm_class()), (os.urandom, self.urandom),
                 (keywrap.aes_key_wrap, self.aes_key_wrap), (keywrap.aes_key_unwrap, self.aes_key_unwrap)]
        if kdf_concat_fn is not None:
            pairs.append((kdf_concat_fn, self.kdf_concat))
        if self.t_ns is not None:
            pairs.append((time.time_ns, self.time_ns))
        pairs += self.streaming_stubs()
        return pairs


# ---------------------------------------------------------------------------------------------- Diffie-Hellman algebra


class ScalarOutOfRange(ValueError):
    """cryptography refuses an EC private scalar outside [1, n-1] with ValueError (probability ~2^-128 for a random draw)"""


def ite_(cond, a, b):
    from vlib.api import ite

    if isinstance(cond, bool):
        return a if cond else b
    return ite(cond, a, b)


def neg_(a):
    from vlib.api import neg

    return neg(a)


class Algebra:
    """Group elements are identified by (generator, multiset of exponents); equal identity <=> same value symbols.
    Nothing else is assumed about the group (no discrete logs, no coincidences).  Both finite-field DH (builtin pow with a
    modulus) and ECDH (cryptography's ec API) are modelled; the same code runs on concrete values in native mode, where the
    element values are the ones chosen by the solver for the path (not real modular arithmetic)."""

    CURVE_BITS = {"secp256r1": 256, "secp384r1": 384, "secp521r1": 521}
    CURVE_ORDER = {
        "secp256r1": 0xFFFFFFFF00000000FFFFFFFFFFFFFFFFBCE6FAADA7179E84F3B9CAC2FC632551,
        "secp384r1": 0xFFFFFFFFFFFFFFFFFFFFFFFFFFFFFFFFFFFFFFFFFFFFFFFFC7634D81F4372DDF581A0DB248B0A77AECEC196ACCC52973,
        "secp521r1": 0x01FFFFFFFFFFFFFFFFFFFFFFFFFFFFFFFFFFFFFFFFFFFFFFFFFFFFFFFFFFFFFFFFFFFA51868783BF2F966B7FCC0148F709A5D03BB5C9B8899C47AEBB6FB71E91386409,
    }

    def __init__(self, world):
        self.w, self.c = world, world.c
        self.guesses = []  # values an outsider commits to as "the shared secret" (see declare_guess)
        self.ff = []  # finite field elements: dict(mod, gen, exps, value)
        self.ec = []  # EC elements: dict(curve, gen, exps, x, y)
        self.n = 0
        self.log = []

    # -- helpers
    def _eq(self, a, b):
        r = a == b
        return r if isinstance(r, (bool, V.SymBool)) else bool(r)

    def _same_exps(self, e1, e2):
        if len(e1) != len(e2):
            return False
        if len(e1) == 1:
            return self._eq(e1[0], e2[0])
        if len(e1) == 2:
            return any_of([all_of([self._eq(e1[0], e2[0]), self._eq(e1[1], e2[1])]), all_of([self._eq(e1[0], e2[1]), self._eq(e1[1], e2[0])])])
        raise NotImplementedError("more than two exponents")

    def _fresh_int(self, tag, bits):
        self.n += 1
        return self.c.int(f"{tag}{self.n}", 0, (1 << bits) - 1)

    def declare_guess(self, value, trusted_mod):
        """an outsider (who knows no private exponent) commits to `value` as the result of a modular exponentiation. In the trusted group
        (modulus `trusted_mod`) an element with an unknown exponent cannot be guessed: it is assumed to differ from every declared guess.
        For any OTHER modulus nothing is assumed - whoever chooses the group (e.g. a 2-bit prime) can guess its elements."""
        self.guesses.append((value, trusted_mod))

    # -- finite field: pow(base, exp, mod)
    def pow(self, base, exp, mod=None):
        if mod is None:
            return base ** exp
        self.log.append(("pow", base, exp, mod))
        if truth(self._eq(mod, 0)):
            raise ValueError("pow() 3rd argument cannot be 0")
        if truth(exp < 0):
            raise ValueError("base is not invertible for the given modulus")
        # laws of modular exponentiation that hold in every group (these are not coincidences): results that do not depend on the exponent
        if truth(self._eq(mod, 1)):
            return 0
        if isinstance(exp, int):
            if exp == 0:
                return 1
        else:
            self.c.assume(exp > 0)  # a private exponent that happens to be 0 is a coincidence (2^-512 for a derived / random key), see "no coincidences"
        # (base is compared with the first two representatives of each residue; a full `base % mod` with both symbolic is not decidable in reach)
        if truth(any_of([self._eq(base, 0), self._eq(base, mod)])):
            return 0
        if truth(any_of([self._eq(base, 1), self._eq(base, mod + 1)])):
            return 1
        if truth(any_of([self._eq(base, mod - 1), self._eq(base, 2 * mod - 1)])):
            return ite_(self._eq(exp % 2, 0), 1, mod - 1)
        gen, exps = base, [exp]
        for r in self.ff:
            if truth(all_of([self._eq(r["mod"], mod), self._eq(r["value"], base)])):
                gen, exps = r["gen"], r["exps"] + [exp]
                break
        for r in self.ff:
            if truth(all_of([self._eq(r["mod"], mod), self._eq(r["gen"], gen), self._same_exps(r["exps"], exps)])):
                return r["value"]
        bits = mod.bit_length() if isinstance(mod, int) else mod.hi.bit_length()
        v = self._fresh_int("dh", max(bits, 1))
        self.c.assume(v < mod)
        # no coincidences: a new group element differs from every element (and generator) seen so far in this group
        for r in self.ff:
            if truth(self._eq(r["mod"], mod)):
                self.c.assume(neg_(self._eq(v, r["value"])))
                self.c.assume(neg_(self._eq(v, r["gen"])))
        self.c.assume(neg_(self._eq(v, gen)))
        self.c.assume(all_of([v > 1, v < mod - 1]) if not isinstance(v, int) else (1 < v < mod - 1))  # a non-degenerate base gives a non-degenerate element
        for g, tm in self.guesses:
            if truth(self._eq(mod, tm)):
                self.c.assume(neg_(self._eq(v, g)))
        self.ff.append(dict(mod=mod, gen=gen, exps=exps, value=v))
        return v

    # -- elliptic curves
    def _ec_element(self, curve, gen, exps):
        for r in self.ec:
            if r["curve"] == curve and truth(all_of([self._eq(r["gen"][0], gen[0]), self._eq(r["gen"][1], gen[1]), self._same_exps(r["exps"], exps)])):
                return r
        bits = self.CURVE_BITS[curve]
        r = dict(curve=curve, gen=gen, exps=exps, x=self._fresh_int("ecx", bits), y=self._fresh_int("ecy", bits))
        for o in self.ec:
            if o["curve"] == curve:
                self.c.assume(neg_(all_of([self._eq(o["x"], r["x"]), self._eq(o["y"], r["y"])])))
        self.ec.append(r)
        return r

    def derive_private_key(self, private_value, curve, backend=None):
        alg = self
        name = curve.name
        if truth(private_value <= 0):
            raise ScalarOutOfRange("private_value must be a positive integer.")
        if truth(private_value >= self.CURVE_ORDER[name]):
            raise ScalarOutOfRange("private_value must be less than the curve order")

        class Priv:
            key_size = self.CURVE_BITS[name]

            def public_key(self_):
                return alg._pub(name, ("G", "G"), [private_value])

            def exchange(self_, algorithm, peer):
                if peer.curve_name != name:
                    raise ValueError("peer_public_key and self are not on the same curve")
                el = alg._ec_element(name, peer.gen, peer.exps + [private_value])
                nbytes = (self_.key_size + 7) // 8
                alg.log.append(("exchange", name, peer.exps, private_value))
                return el["x"].to_bytes(nbytes, "big") if not isinstance(el["x"], int) else el["x"].to_bytes(nbytes, "big")

        return Priv()

    def _pub(self, name, gen, exps):
        alg = self
        el = self._ec_element(name, gen, exps)

        class Numbers:
            x, y = el["x"], el["y"]

        class Pub:
            curve_name = name
            key_size = self.CURVE_BITS[name]

            def public_numbers(self_):
                return Numbers()

        p = Pub()
        p.gen, p.exps = gen, exps
        return p

    def public_numbers_factory(self):
        alg = self

        class EllipticCurvePublicNumbers:
            def __init__(self_, x, y, curve):
                self_.x, self_.y, self_.curve = x, y, curve

            def public_key(self_, backend=None):
                name = self_.curve.name
                bits = alg.CURVE_BITS[name]
                if truth(any_of([self_.x < 0, self_.y < 0])):
                    raise ValueError("Invalid EC key.")
                for r in alg.ec:
                    if r["curve"] == name and truth(all_of([alg._eq(r["x"], self_.x), alg._eq(r["y"], self_.y)])):
                        return alg._pub(name, r["gen"], r["exps"])
                # a point the algebra has not produced: it is either not on the curve (cryptography raises ValueError) or some unknown group element
                alg.n += 1
                if not truth(alg.c.bool(f"on_curve{alg.n}")):
                    raise ValueError("Invalid EC key.")
                el = dict(curve=name, gen=(self_.x, self_.y), exps=[1], x=self_.x, y=self_.y)
                alg.ec.append(el)
                return alg._pub(name, el["gen"], el["exps"])

        return EllipticCurvePublicNumbers

    def stubs(self):
        import builtins

        return [(builtins.pow, self.pow), (ec.derive_private_key, self.derive_private_key), (ec.EllipticCurvePublicNumbers, self.public_numbers_factory())]

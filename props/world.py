"""Environment stubs shared by the harnesses: ideal KDF / AEAD / key-wrap, RNG, clock, Diffie-Hellman algebra.

Every stub is an *assumption of the claim* (DESIGN.md 2.5).  All of them work in both modes: on symbolic proxies
(symbolic mode) and on plain bytes (native replay)."""
from __future__ import annotations

import os
import time

from cryptography.exceptions import InvalidTag
from cryptography.hazmat.primitives import keywrap
from cryptography.hazmat.primitives.asymmetric import ec
from cryptography.hazmat.primitives.ciphers.aead import AESGCM
from cryptography.hazmat.primitives.kdf.concatkdf import ConcatKDFHash
from cryptography.hazmat.primitives.kdf.kbkdf import KBKDFHMAC

from symex import values as V
from vlib.api import all_of, any_of, truth


def seq_eq(a, b):
    """bytes equality -> bool | SymBool (no fork)"""
    if isinstance(a, (bytes, bytearray, memoryview)) and isinstance(b, (bytes, bytearray, memoryview)):
        return bytes(a) == bytes(b)
    if not V.is_byteslike(a) or not V.is_byteslike(b):
        return a is b
    if not isinstance(a, V.SymSeq):
        a = V.SymBytes(list(bytes(a)))
    return a == b


def same_syms(a, b):
    """syntactic identity of two byte sequences (same concrete values / same solver terms) - never forks"""
    import z3

    if not V.is_byteslike(a) or not V.is_byteslike(b):
        return False
    x, y = V.seq_items(a), V.seq_items(b)
    if len(x) != len(y):
        return False
    for p, q in zip(x, y):
        if isinstance(p, int) or isinstance(q, int):
            if not (isinstance(p, int) and isinstance(q, int) and p == q):
                return False
        elif p is not q and not z3.eq(z3.simplify(p.t), z3.simplify(q.t)):
            return False
    return True


def _identical(a, b):
    if a is b:
        return True
    if isinstance(a, (bytes, bytearray)) and isinstance(b, (bytes, bytearray)):
        return bytes(a) == bytes(b)
    if not V.is_byteslike(a) or not V.is_byteslike(b):
        return False
    x, y = V.seq_items(a), V.seq_items(b)
    if len(x) != len(y):
        return False
    for p, q in zip(x, y):
        if p is q:
            continue
        if isinstance(p, int) and isinstance(q, int) and p == q:
            continue
        return False
    return True


def lookup(records, key_parts, world=None):
    """find the record whose key parts are all equal to key_parts; forks only when equality is genuinely undecided.
    Two *different* whole outputs of the ideal primitives / RNG are assumed unequal (no collisions): the disequality is added
    to the path condition so that the path's model (used for the native cross-check and replays) respects it."""
    cands = []
    for rec in records:  # fast path: the very same objects / symbols
        if all(_identical(x, y) for x, y in zip(rec[0], key_parts)):
            return rec
    for rec in records:
        eqs = []
        for x, y in zip(rec[0], key_parts):
            q = seq_eq(x, y)
            q = q if isinstance(q, (bool, V.SymBool)) else bool(q)
            eqs.append(q)
            if q is False:
                break
        if any(q is False for q in eqs):
            continue
        e = all_of(eqs)
        if e is True:
            return rec
        if world is not None and world.assume_distinct(rec[0], key_parts):
            continue
        if e is not False:
            cands.append((e, rec))
    if not cands:
        return None
    if not truth(any_of([e for e, _ in cands])):
        return None
    for e, rec in cands:
        if truth(e):
            return rec
    return None


class World:
    """one instance per path"""

    def __init__(self, c, t_ns=None):
        self.c = c
        self.n = 0
        self.kdf_records = {}
        self.concat_records = {}
        self.aead = []
        self.wraps = []
        self.draws = []  # (name, length, value) of every RNG draw, in order
        self.t_ns = t_ns
        self.kdf_calls = 0
        self.kdf_log = []  # captured constructor arguments (C03)
        self.origin = {}
        self.distinct = set()

    def fresh(self, tag, n):
        self.n += 1
        v = self.c.bytes(f"{tag}{self.n}", n)
        if n >= 12 and self.c.symbolic:
            items = V.seq_items(v)
            self.origin[id(items[0])] = (self.n, items)
        return v

    def whole_draw(self, seq):
        """draw number if seq is exactly one fresh vector (same solver symbols, same order), else None"""
        if not V.is_byteslike(seq) or not isinstance(seq, V.SymSeq):
            return None
        items = seq.items()
        if not items or isinstance(items[0], int):
            return None
        o = self.origin.get(id(items[0]))
        if o is None or len(o[1]) != len(items) or any(a is not b for a, b in zip(o[1], items)):
            return None
        return o[0]

    def assume_distinct(self, parts_a, parts_b):
        """True if some corresponding pair of parts are two different fresh draws (then they are assumed unequal)"""
        if not self.c.symbolic:
            return False
        import z3

        for x, y in zip(parts_a, parts_b):
            dx, dy = self.whole_draw(x), self.whole_draw(y)
            if dx is not None and dy is not None and dx != dy:
                key = (min(dx, dy), max(dx, dy))
                if key not in self.distinct:
                    self.distinct.add(key)
                    e = x == y
                    if isinstance(e, V.SymBool):
                        self.c.e.add(z3.Not(e.t))
                return True
        return False

    # -- ideal KDF: a function; fresh output for new arguments
    def kdf(self, algorithm, secret, label, context, length):
        self.kdf_calls += 1
        self.c.count("kdf")
        length = self.c.concretize(length)
        key = (algorithm.name, bytes(label), length)
        recs = self.kdf_records.setdefault(key, [])
        hit = lookup(recs, (secret, context), self)
        if hit is not None:
            return hit[1]
        out = self.fresh("kdf", length)
        recs.append(((secret, context), out))
        return out

    def kdf_concat(self, algorithm, shared_secret, algorithm_id, party_uinfo, party_vinfo, length):
        key = (algorithm.name, bytes(algorithm_id), bytes(party_uinfo), bytes(party_vinfo), length)
        recs = self.concat_records.setdefault(key, [])
        hit = lookup(recs, (shared_secret,), self)
        if hit is not None:
            return hit[1]
        out = self.fresh("ckdf", length)
        recs.append(((shared_secret,), out))
        return out

    # -- RNG
    def urandom(self, n):
        n = self.c.concretize(n)
        v = self.fresh("rnd", n)
        self.draws.append(("urandom", n, v))
        return v

    def generate_key(self, bits):
        v = self.fresh("cek", bits // 8)
        self.draws.append(("generate_key", bits // 8, v))
        return v

    # -- clock
    def time_ns(self):
        return self.t_ns

    # -- ideal AES key wrap (RFC 3394 contract of cryptography.hazmat.primitives.keywrap)
    def aes_key_wrap(self, wrapping_key, key_to_wrap, backend=None):
        if len(wrapping_key) not in (16, 24, 32):
            raise ValueError("The wrapping key must be a valid AES key length")
        if len(key_to_wrap) < 16:
            raise ValueError("The key to wrap must be at least 16 bytes")
        if len(key_to_wrap) % 8 != 0:
            raise ValueError("The key to wrap must be a multiple of 8 bytes")
        out = self.fresh("wrapped", len(key_to_wrap) + 8)
        self.wraps.append(((wrapping_key, out), key_to_wrap))
        return out

    def aes_key_unwrap(self, wrapping_key, wrapped_key, backend=None):
        if len(wrapped_key) < 24:
            raise keywrap.InvalidUnwrap("Must be at least 24 bytes")
        if len(wrapped_key) % 8 != 0:
            raise keywrap.InvalidUnwrap("The wrapped key must be a multiple of 8 bytes")
        if len(wrapping_key) not in (16, 24, 32):
            raise ValueError("The wrapping key must be a valid AES key length")
        hit = lookup(self.wraps, (wrapping_key, wrapped_key), self)
        if hit is None:
            raise keywrap.InvalidUnwrap()
        return hit[1]

    # -- ideal AEAD
    def aesgcm_class(world):
        class IdealAESGCM:
            def __init__(self, key):
                if len(key) not in (16, 24, 32):
                    raise ValueError("AESGCM key must be 128, 192, or 256 bits.")
                self.key = key

            @staticmethod
            def generate_key(bit_length):
                return world.generate_key(bit_length)

            def encrypt(self, nonce, data, associated_data):
                if not 8 <= len(nonce) <= 128:
                    raise ValueError("Nonce must be between 8 and 128 bytes")
                ct = world.fresh("ct", len(data) + 16)
                world.aead.append(((self.key, nonce, ct), data))
                return ct

            def decrypt(self, nonce, data, associated_data):
                if not 8 <= len(nonce) <= 128:
                    raise ValueError("Nonce must be between 8 and 128 bytes")
                if len(data) < 16:
                    raise InvalidTag()
                hit = lookup(world.aead, (self.key, nonce, data), world)
                if hit is None:
                    raise InvalidTag()
                return hit[1]

        return IdealAESGCM

    def stubs(self, kdf_fn, kdf_concat_fn=None):
        """stub list: kdf_fn / kdf_concat_fn are dpapi_ng._crypto.kdf / kdf_concat (the wrappers themselves are C03's subject)"""
        pairs = [(kdf_fn, self.kdf), (AESGCM, self.aesgcm_class()), (os.urandom, self.urandom),
                 (keywrap.aes_key_wrap, self.aes_key_wrap), (keywrap.aes_key_unwrap, self.aes_key_unwrap)]
        if kdf_concat_fn is not None:
            pairs.append((kdf_concat_fn, self.kdf_concat))
        if self.t_ns is not None:
            pairs.append((time.time_ns, self.time_ns))
        return pairs

"""C08 - SID and target security descriptor bytes follow MS-DTYP for every SID."""
from __future__ import annotations

import time

import z3
from dpapi_ng import _blob
from dpapi_ng import _security_descriptor as sdm

from symex import regex as R
from symex import values as V
from symex.interp import RegexProbe
from vlib.api import all_of, any_of, harness, implies, neg, run_native

from . import refs
from .world import seq_eq

META = dict(assumptions=[
    "canonical SID grammar (MS-DTYP 2.4.2.1): S-R-A-s1..sn, n in 1..15, decimal fields; leading zeros are not demanded to be rejected",
    "regular expressions are translated to z3 regexes with Python's semantics (\\d = Unicode Nd unless re.ASCII, $ also matches before a final newline, match() anchors the start only)",
    "decimal renderings of symbolic ints are canonical (no sign, no leading zeros)",
])
P = "C08"


def _sid_str(c, n, tag=""):
    r = c.int(tag + "rev", 0, 9)
    a = c.int(tag + "auth", 0, (1 << 70) - 1)
    subs = [c.int(f"{tag}sub{i}", 0, (1 << 34) - 1) for i in range(n)]
    if c.symbolic:
        s = V.SymStr(["S-", V.SymStr.dec(r), "-", V.SymStr.dec(a)] + [x for sub in subs for x in ("-", V.SymStr.dec(sub))]).norm()
    else:
        s = "S-" + "-".join(str(x) for x in [r, a] + subs)
    return s, r, a, subs


def _in_range(a, subs):
    return all_of([a < (1 << 48)] + [s < (1 << 32) for s in subs])


@harness(P, params=lambda tier: [dict(n=n) for n in ([1, 2, 5, 15] if tier == "quick" else range(1, 16))],
         bounds="SID strings S-R-A-s1..sn with n sub-authorities (n in {1,2,5,15} quick / 1..15 thorough), R in [0,9], A in [0,2^70), every si in [0,2^34), all symbolic "
         "(canonical decimal renderings)", outside="non-canonical decimal renderings (leading zeros); values beyond 2^70 / 2^34",
         must_reach=("in-range SID has the MS-DTYP layout", "out-of-range value is refused with ValueError"))
def sid_layout(c, n):
    s, r, a, subs = _sid_str(c, n)
    ok = _in_range(a, subs)
    try:
        b = c.call(sdm.sid_to_bytes, s)
    except ValueError:
        c.check(neg(ok), "out-of-range value is refused with ValueError")
        return "ValueError"
    c.check(ok, "out-of-range value was accepted (silently altered)")
    c.check(seq_eq(b, refs.ref_sid(r, a, subs)), "in-range SID has the MS-DTYP layout")
    return len(b)


@harness(P, params=[dict(n=n) for n in (0, 16, 17)], raises=(ValueError,), bounds="n = 0, 16, 17 sub-authorities (in-range values): must be refused with ValueError", must_reach=())
def sid_count(c, n):
    r = c.int("rev", 0, 9)
    a = c.int("auth", 0, (1 << 48) - 1)
    subs = [c.int(f"sub{i}", 0, (1 << 32) - 1) for i in range(n)]
    s = V.SymStr(["S-", V.SymStr.dec(r), "-", V.SymStr.dec(a)] + [x for sub in subs for x in ("-", V.SymStr.dec(sub))]).norm() if c.symbolic else \
        "S-" + "-".join(str(x) for x in [r, a] + subs)
    c.call(sdm.sid_to_bytes, s)
    c.check(False, "SID with an invalid number of sub-authorities accepted")


@harness(P, params=lambda tier: [dict(n=n) for n in ([1, 4, 15] if tier == "quick" else range(1, 16))],
         bounds="two SIDs with the same number n of sub-authorities and in-range symbolic fields: equal bytes imply equal fields (different n: different lengths)",
         must_reach=("distinct SIDs give distinct bytes",))
def sid_injective(c, n):
    def mk(tag):
        r = c.int(tag + "rev", 0, 9)
        a = c.int(tag + "auth", 0, (1 << 48) - 1)
        subs = [c.int(f"{tag}sub{i}", 0, (1 << 32) - 1) for i in range(n)]
        s = V.SymStr(["S-", V.SymStr.dec(r), "-", V.SymStr.dec(a)] + [x for sub in subs for x in ("-", V.SymStr.dec(sub))]).norm() if c.symbolic else \
            "S-" + "-".join(str(x) for x in [r, a] + subs)
        return s, [r, a] + subs

    s1, f1 = mk("x_")
    s2, f2 = mk("y_")
    b1, b2 = c.call(sdm.sid_to_bytes, s1), c.call(sdm.sid_to_bytes, s2)
    c.check(implies(seq_eq(b1, b2), all_of([x == y for x, y in zip(f1, f2)])), "distinct SIDs give distinct bytes")
    c.check(len(b1) == 8 + 4 * n, "length determines n")
    return len(b1)


def parse_sd(b):
    """independent parser of a self-relative SECURITY_DESCRIPTOR (MS-DTYP 2.4.6) with ACL (2.4.5), ACE (2.4.4.2), SID (2.4.2.2).
    Works on concrete or symbolic bytes; the structural fields it branches on must be concrete."""
    def u(off, n):
        v = b[off : off + n]
        if isinstance(v, (bytes, bytearray)):
            return int.from_bytes(v, "little")
        return V.int_from_bytes(v, "little")

    def sid(off):
        rev, cnt = b[off], b[off + 1]
        auth = b[off + 2 : off + 8]
        auth = int.from_bytes(auth, "big") if isinstance(auth, (bytes, bytearray)) else V.int_from_bytes(auth, "big")
        subs = [u(off + 8 + 4 * i, 4) for i in range(cnt)]
        return dict(rev=rev, auth=auth, subs=subs, size=8 + 4 * cnt)

    def acl(off):
        rev, sbz, size, count, sbz2 = b[off], b[off + 1], u(off + 2, 2), u(off + 4, 2), u(off + 6, 2)
        aces, p = [], off + 8
        for _ in range(count):
            at, af, asz, mask = b[p], b[p + 1], u(p + 2, 2), u(p + 4, 4)
            s = sid(p + 8)
            aces.append(dict(type=at, flags=af, size=asz, mask=mask, sid=s))
            p += asz
        return dict(rev=rev, sbz=sbz, size=size, count=count, sbz2=sbz2, aces=aces, end=p)

    sd = dict(rev=b[0], sbz=b[1], control=u(2, 2), owner_off=u(4, 4), group_off=u(8, 4), sacl_off=u(12, 4), dacl_off=u(16, 4))
    sd["owner"] = sid(sd["owner_off"])
    sd["group"] = sid(sd["group_off"])
    sd["dacl"] = acl(sd["dacl_off"]) if sd["dacl_off"] else None
    return sd


@harness(P, params=lambda tier: [dict(n=n) for n in ([1, 2, 5, 15] if tier == "quick" else range(1, 16))],
         bounds="target security descriptor for every in-range SID with n sub-authorities (symbolic fields), through ProtectionDescriptor.parse().get_target_sd()",
         must_reach=("target SD decodes to the MS-GKDI descriptor",))
def target_sd(c, n):
    s, r, a, subs = _sid_str(c, n)
    c.assume(_in_range(a, subs))
    d = c.call(_blob.ProtectionDescriptor.parse, s)
    b = refs.cat(c.call(d.get_target_sd))
    sd = parse_sd(b)
    system = dict(rev=1, auth=5, subs=[18], size=12)
    sid_size = 8 + 4 * n
    dacl = sd["dacl"]
    conds = [sd["rev"] == 1, sd["sbz"] == 0, sd["control"] == 0x8004, sd["sacl_off"] == 0, sd["dacl_off"] == 20,
             dacl is not None and dacl["rev"] == 2 and dacl["sbz"] == 0 and dacl["sbz2"] == 0 and dacl["count"] == 2,
             dacl["size"] == 8 + (8 + sid_size) + (8 + 12), sd["owner_off"] == 20 + dacl["size"], sd["group_off"] == sd["owner_off"] + 12,
             len(b) == sd["group_off"] + 12, dacl["end"] == sd["owner_off"]]
    a0, a1 = dacl["aces"]
    conds += [a0["type"] == 0, a0["flags"] == 0, a0["size"] == 8 + sid_size, a0["mask"] == 3, a0["sid"]["rev"] == r, a0["sid"]["auth"] == a, len(a0["sid"]["subs"]) == n]
    conds += [x == y for x, y in zip(a0["sid"]["subs"], subs)]
    conds += [a1["type"] == 0, a1["flags"] == 0, a1["size"] == 20, a1["mask"] == 2, a1["sid"]["rev"] == 1, a1["sid"]["auth"] == 1, a1["sid"]["subs"] == [0]]
    for who in ("owner", "group"):
        conds += [sd[who]["rev"] == 1, sd[who]["auth"] == 5, sd[who]["subs"] == [18]]
    c.check(all_of([x if isinstance(x, (bool, V.SymBool)) else bool(x) for x in conds]), "target SD decodes to the MS-GKDI descriptor")
    return len(b)


# ------------------------------------------------------------------------------------------- solver-only grammar questions


def _lit(x):
    return z3.Re(z3.StringVal(x))


def _spec_languages():
    D = z3.Range(z3.StringVal("0"), z3.StringVal("9"))
    N = z3.Union(_lit("0"), z3.Concat(z3.Range(z3.StringVal("1"), z3.StringVal("9")), z3.Star(D)))

    def upto(k):  # canonical decimals with at most k digits
        return z3.Union(_lit("0"), z3.Concat(z3.Range(z3.StringVal("1"), z3.StringVal("9")), z3.Loop(D, 0, k - 1)))

    loose = z3.Concat(_lit("S-"), D, _lit("-"), z3.Plus(D), z3.Loop(z3.Concat(_lit("-"), z3.Plus(D)), 1, 15))
    canon_small = z3.Concat(_lit("S-"), D, _lit("-"), upto(14), z3.Loop(z3.Concat(_lit("-"), upto(9)), 1, 15))
    return loose, canon_small


def _native_sid(s):
    try:
        return ("ok", sdm.sid_to_bytes(s))
    except ValueError as e:
        return ("ValueError", str(e))
    except Exception as e:
        return (type(e).__name__, str(e))


def grammar_check():
    """(1) every string the implementation's regular expression lets through is S-d-d+(-d+){1,15} in ASCII digits;
       (2) every canonical in-range SID string is let through."""
    from symex.engine import Engine
    from symex.interp import Interp

    t0 = time.time()
    res = dict(violations=[], inconclusive=[], stats=dict(queries=0, solver_s=0.0), samples=[])
    eng = Engine()
    it = Interp()
    probe = {}

    def fn(e):
        try:
            it.call(sdm.sid_to_bytes, V.AnyStr())
        except RegexProbe as p:
            probe.update(pattern=p.pattern, flags=p.flags, method=p.method)
        return None

    try:
        eng.explore(fn, lambda pr: None, max_paths=1)
    except BaseException as e:
        res["inconclusive"].append(f"could not reach the regular expression symbolically: {e!r}")
        return res
    if not probe:
        res["inconclusive"].append("sid_to_bytes applied no regular expression to its argument before using it")
        return res
    lang = R.language(R.translate(probe["pattern"], probe["flags"]), probe["method"])
    loose, canon_small = _spec_languages()
    s = z3.String("s")

    def ask(*cs):
        sol = z3.Solver()
        sol.set("timeout", 60000)
        sol.add(*cs)
        t = time.time()
        r = sol.check()
        res["stats"]["queries"] += 1
        res["stats"]["solver_s"] += time.time() - t
        return r, sol

    # (1) over-acceptance: witnesses are replayed natively; a witness the function still refuses with ValueError is excluded and the query repeated
    excluded = []
    for _ in range(8):
        r, sol = ask(z3.InRe(s, lang), z3.Not(z3.InRe(s, loose)), *[s != z3.StringVal(x) for x in excluded])
        if r == z3.unsat:
            break
        if r == z3.unknown:
            res["inconclusive"].append("regex inclusion query (impl within spec) returned unknown")
            break
        w = sol.model()[s].as_string()
        w = w.encode("ascii", "backslashreplace").decode("unicode_escape") if "\\u{" not in w else _unescape(w)
        out = _native_sid(w)
        res["samples"].append(dict(question="accepted by the regex but not a canonical SID string", witness=repr(w), native=out[0]))
        if out[0] != "ValueError":
            res["violations"].append(dict(label="grammar: non-canonical string accepted", detail=f"{w!r} -> {out[0]}", inputs={"sid": repr(w)}, confirmed=True,
                                          native=f"sid_to_bytes({w!r}) -> {out[0]} {out[1]!r}"[:200]))
            break
        excluded.append(w)
    else:
        res["inconclusive"].append("8 regex-level witnesses were all refused later by the function; language inclusion not decided")
    # (2) under-acceptance
    r, sol = ask(z3.InRe(s, canon_small), z3.Not(z3.InRe(s, lang)))
    if r == z3.sat:
        w = _unescape(sol.model()[s].as_string())
        out = _native_sid(w)
        res["samples"].append(dict(question="canonical in-range SID string refused by the regex", witness=repr(w), native=out[0]))
        if out[0] != "ok":
            res["violations"].append(dict(label="grammar: canonical SID refused", detail=f"{w!r} -> {out[0]}", inputs={"sid": repr(w)}, confirmed=True,
                                          native=f"sid_to_bytes({w!r}) -> {out[0]}"))
        else:
            res["inconclusive"].append(f"witness {w!r} of the refusal query is accepted natively: regex translation is unfaithful")
    elif r == z3.unknown:
        res["inconclusive"].append("regex inclusion query (spec within impl) returned unknown")
    res["regex"] = dict(probe, flags=int(probe["flags"]))
    res["wall_s"] = round(time.time() - t0, 2)
    return res


def _unescape(w):
    import re as _re

    return _re.sub(r"\\u\{([0-9a-fA-F]+)\}", lambda m: chr(int(m.group(1), 16)), w)


def near_misses():
    """explicit near-miss strings of the property statement, decided natively (they are single concrete inputs, listed for completeness;
    the quantified statements are decided by the harnesses above)"""
    res = dict(violations=[], inconclusive=[], stats={}, samples=[])
    cases = ["S-1-5-18\n", "S-1-5-\u0661\u0668", "S-1-5-+18", "S-1-5- 18", "S-1-5--18", "S-1--5-18", " S-1-5-18", "S-1-5-18 ", "S-1-5-4294967296", "S-1-281474976710656-1",
             "S-1-18446744073709551616-1", "S-1-5", "S-1-5-", "s-1-5-18", "S-10-5-18", "S-1-5-1-2-3-4-5-6-7-8-9-10-11-12-13-14-15-16", "", "S-1-5-18\r", "S-1-5-1_8"]
    cases += ["S-1-5-18\r\n", "\tS-1-5-18", "S-1-5-18\x0b", "\u00a0S-1-5-18", "S-1-5-18\u2003", "S-1-5-18\x00"]
    for s in cases:
        out = _native_sid(s)
        res["samples"].append(dict(near_miss=repr(s), native=out[0]))
        if out[0] != "ValueError":
            res["violations"].append(dict(label="near-miss accepted", detail=f"{s!r} -> {out[0]}", inputs={"sid": repr(s)}, confirmed=True, native=f"{out[0]} {out[1]!r}"[:200]))
        # the same string through the public path: ProtectionDescriptor.parse(...).get_target_sd() (what ncrypt_protect_secret does with its argument)
        try:
            sd = ("ok", _blob.ProtectionDescriptor.parse(s).get_target_sd())
        except ValueError as e:
            sd = ("ValueError", str(e))
        except Exception as e:
            sd = (type(e).__name__, str(e))
        if sd[0] != "ValueError":
            res["violations"].append(dict(label="near-miss accepted by ProtectionDescriptor.parse(...).get_target_sd()", detail=f"{s!r} -> {sd[0]}", inputs={"sid": repr(s), "path": "parse"},
                                          confirmed=True, native=f"{sd[0]} {sd[1]!r}"[:200]))
    return res


def extra_checks(tier):
    return [("grammar", grammar_check), ("near_misses", near_misses)]

import uuid, os, dataclasses
import dpapi_ng
from dpapi_ng import _blob, _gkdi, _crypto
from cryptography.hazmat.primitives import hashes, keywrap
from cryptography.hazmat.primitives.ciphers.aead import AESGCM

rk = uuid.UUID(int=77)
root = os.urandom(64)
cache = dpapi_ng.KeyCache(); cache.load_key(root, rk)
sid = "S-1-5-21-1-2-3-1104"
blob = dpapi_ng.ncrypt_protect_secret(b"original", sid, root_key_identifier=rk, cache=cache)
y = _blob.DPAPINGBlob.unpack(blob)
for (kl, p, g, pub, guess) in [(1, 251, 2, 1, 1), (256, None, None, 1, 1), (1, 3, 2, 2, None)]:
    if p is None:
        prm = _gkdi.FFCDHParameters.unpack(cache._root_keys[rk].secret_parameters)
        p, g, kl = prm.field_order, prm.generator, prm.key_length
    ki = _gkdi.FFCDHKey(kl, p, g, pub).pack()
    ok = 0
    for s in ([guess] if guess is not None else [1, 2]):
        LABEL = "KDS service\0".encode("utf-16-le"); ctx = "KDS public key\0".encode("utf-16-le")
        secret = _crypto.kdf_concat(hashes.SHA256(), s.to_bytes(kl, "big"), algorithm_id="SHA512\0".encode("utf-16-le"), party_uinfo=ctx, party_vinfo=LABEL, length=32)
        kek = _crypto.kdf(hashes.SHA512(), secret, LABEL, ctx, 32)
        cek = os.urandom(32); nonce = os.urandom(12)
        enc_cek = keywrap.aes_key_wrap(kek, cek)
        content = AESGCM(cek).encrypt(nonce, b"FORGED!!", None)
        kid = dataclasses.replace(y.key_identifier, flags=y.key_identifier.flags | 1, key_info=ki)
        forged = dataclasses.replace(y, key_identifier=kid, enc_cek=enc_cek, enc_content=content, enc_content_parameters=bytes([0x30,0x11,0x04,0x0c])+nonce+bytes([2,1,16]))
        try:
            out = dpapi_ng.ncrypt_unprotect_secret(forged.pack(), cache=cache)
            print("kl", kl, "p", p if p < 1000 else "rfc5114", "y", pub, "guess", s, "->", out)
            ok += 1
        except Exception as e:
            print("kl", kl, "p", p if p < 1000 else "rfc5114", "y", pub, "guess", s, "-> raised", type(e).__name__, e)

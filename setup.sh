#!/bin/sh
# Build the check environment from files on disk only (offline). Idempotent.
set -e
cd "$(dirname "$0")"
if [ ! -x .venv/bin/python ] || ! .venv/bin/python -c "import z3, dpapi_ng" >/dev/null 2>&1; then
    rm -rf .venv
    /venv/bin/python -m venv .venv
    SP=$(.venv/bin/python -c "import sysconfig; print(sysconfig.get_paths()['purelib'])")
    echo "import site; site.addsitedir('/venv/lib/python3.12/site-packages')" > "$SP/verif_overlay.pth"
    PIP_NO_INDEX=1 .venv/bin/pip install -q --no-index --find-links /opt/veriftools/wheels z3-solver >/dev/null
    .venv/bin/python -c "import z3, dpapi_ng"
fi

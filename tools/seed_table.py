#!/usr/bin/env python3
"""prints the markdown table of seeded defects and which check catches them (from seeded/*/meta.json)"""
import glob, json, os
print("| seed | change | needs | caught by (quick tier) |")
print("|---|---|---|---|")
n = hit = 0
for d in sorted(glob.glob(os.path.join(os.path.dirname(os.path.dirname(os.path.abspath(__file__))), "seeded", "*"))):
    m = json.load(open(d + "/meta.json"))
    ck = m.get("checks", {})
    own = m["property"]
    hits = [f"{k.split(':')[0]} `{v['first'][0].split(':')[0] if v.get('first') else ''}`" for k, v in ck.items() if v["exit"] == 1 and v["violations"]]
    hits.sort(key=lambda h: not h.startswith(own))
    miss = [k.split(":")[0] for k, v in ck.items() if not (v["exit"] == 1 and v["violations"])]
    res = ", ".join(hits) if hits else ("**missed** by " + ", ".join(miss))
    if m.get("superseded") and not hits:
        res = "n/a: no longer breaks the property on the repaired tree (see meta.json)"
        n -= 1
    summ = " ".join(m["summary"].split()).replace("|", "/")
    needs = " ".join(m.get("needs", "").split()).replace("|", "/")
    cut = lambda t, k: t if len(t) <= k else t[: t.rfind(" ", 0, k)] + " ..."
    print(f"| {os.path.basename(d)} | {cut(summ, 200)} | {cut(needs, 160)} | {res} |")
    n += 1
    hit += bool(hits)
print()
print(f"{hit} of {n} caught.")

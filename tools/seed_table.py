#!/usr/bin/env python3
"""prints the markdown table of seeded defects and which check catches them (from seeded/*/meta.json)"""
import glob, json, os
print("| seed | property | change (what it needs to manifest) | caught by (quick tier) |")
print("|---|---|---|---|")
for d in sorted(glob.glob(os.path.join(os.path.dirname(os.path.dirname(os.path.abspath(__file__))), "seeded", "*"))):
    m = json.load(open(d + "/meta.json"))
    ck = m.get("checks", {})
    hits = [f"{k.split(':')[0]} ({v['first'][0].split(':')[0] if v.get('first') else ''})" for k, v in ck.items() if v["exit"] == 1 and v["violations"]]
    miss = [k.split(":")[0] for k, v in ck.items() if not (v["exit"] == 1 and v["violations"])]
    res = ", ".join(hits) if hits else ("**missed** by " + ", ".join(miss))
    summ = m["summary"].replace("\n", " ").replace("|", "/")
    needs = m.get("needs", "").replace("\n", " ").replace("|", "/")
    print(f"| {os.path.basename(d)} | {m['property']} | {summ[:170]} *Needs:* {needs[:150]} | {res} |")

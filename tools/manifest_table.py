NOTES = ("All checks decide their property by bounded symbolic execution of /repo's current source (re-read on every run); bounds, stubs and what "
         "lies outside them are in DESIGN.md section 4 and in each evidence file. Exit codes: 0 held and exploration exhaustive within the bound, "
         "1 replayed violation, 2 inconclusive (solver unknown / unsupported construct / budget), 3 harness error.")

CHECKS = {
    "C07": dict(
        text="Every path of the ASN.1 writers/readers for symbolic integers (|v| <= 2^72 quick, 2^520 thorough), booleans, OIDs (2..4 arcs with arcs < 2^64; thorough also 5, 6 and 8 arcs with arcs < 2^21 / 2^14), "
             "tags (class x constructed x number < 2^32), listed content lengths, content whose LENGTH is a solver variable over [0, 2^32) (thorough 2^64), a nested writer tree, UTF8String text whose code points are solver variables over all of Unicode, 13 listed texts that are not in normalisation form C, repeated packing of the same value, and 11 operation histories (peek/skip/read/remaining) on one reader is explored; on each path z3 proves the emitted "
             "octets equal an independent minimal-DER reference and the reader returns the value and consumes exactly the encoding. Exhaustive within "
             "those bounds, not beyond.",
        note="Trusted: the symbolic interpreter (cross-checked natively on every explored path), z3, the X.690 reference encoder in props/refs.py. "
             "Content octets of symbolic-length values are opaque; reader histories other than the listed ones are outside the claim."),
    "C02": dict(
        text="compute_l2_key / compute_l1_key / KeyCache._get_key / get_kek are executed with the envelope position and the requested position symbolic over "
             "the full 32^4 lattice (covering pairs), L0 symbolic, and a chain-step KDF stub whose abstract keys carry symbolic indices; on every path z3 "
             "proves the returned key is the chain element L2(L1,L2). Non-covering and out-of-range requests must raise ValueError within the step budget. The root-key route is also run after the same cache served a protect at a listed position.",
        note="Trusted: interpreter (per-path native cross-check), z3, the chain-step stub as a faithful statement of MS-GKDI 3.1.4.1.2, collision-freeness of the "
             "real KDF. Quick tier: one hash for the lattice (the hash only selects the stub's algorithm check); thorough: 4 hashes x 3 L0 values on the root route."),
    "C09": dict(
        text="_get_protection_gke_from_cache is executed with time.time_ns() symbolic over [0, 2^63); z3 proves (QF_BV, or QF_BVFP when the code divides in "
             "floating point) that the (L0,L1,L2) handed to the cache equal floor(t/(1024b)), floor(t/(32b)) mod 32, floor(t/b) mod 32 for every instant. Propagation harnesses parse the key identifier back from the emitted blob (root-key or seed-key cache state, clock in windows around L2/L1/L0 boundaries), including a two-call history with a clock that advances (or is stepped back) between reads. Every check runs in a non-UTC time zone set before the library is imported.",
        note="Trusted: interpreter, z3's bit-vector and floating-point theories, the CPython int/int model (correct rounding via 130-bit intermediate). "
             "Clock values outside 1970..2262 are outside the claim."),
    "C16": dict(
        text="RpcClient._process_response (with PDU.unpack, Response._unpack, SecTrailer.unpack below it) is executed on a fully symbolic adversarial reply of each "
             "listed length against an ideal security context holding one authentic sealed reply; on every path that returns a Response z3 proves its stub equals the "
             "sealed plaintext (and, with header signing, that the trailer is the authenticated one); replies of any other packet type must raise. History: after an altered (rejected) first reply the next request on the same client is still sealed and a second, fully symbolic reply is only accepted if sealed; request and reply side of one exchange together (incl. the empty stub): the request must be sealed and no reply may be accepted when the peer sealed nothing.",
        note="Trusted: interpreter, z3, the ideal-unwrap contract (only the authentic buffers verify). Strength of NTLM/Kerberos sealing and reply lengths not listed "
             "are outside the claim."),
    "C18": dict(
        text="EptMapResult.unpack and _process_ept_map_result are executed on replies built by an independent NDR64 encoder with symbolic protocol ids, payloads, "
             "ports, status and every tower-length residue mod 8 (z3 proves the returned port is that of the first tower with a TCP floor, errors exactly for "
             "status != 0 / no TCP floor), on replies with more towers than were requested (5..8, thorough 12) whose only TCP floor sits in a late tower, and on arbitrary buffers whose 64-bit tower count is symbolic, where every path must end within the step budget.",
        note="Trusted: interpreter, z3, the reference encoder. 'Proportional work' is decided as a fixed interpreted-statement budget on buffers up to 76 bytes."),
    "C20": dict(
        text="_get_highest_answer, lookup_dc and async_lookup_dc are executed on 1..5 SRV records with symbolic priority/weight/port in any order (the native sort "
             "runs on symbolic keys, so every ordering and tie is a path); z3 proves min-priority/max-weight selection, field preservation, dot stripping, the "
             "queried name/type/search flag and sync==async; duplicate hosts (same / differently spelled) and hosts with punycode labels included; targets are real dns.name.Name objects. The four public functions are run with no server and an uncovered cache against recording lookup / GetKey stubs: the blob's (the caller's) domain is looked up once and GetKey goes to the returned target.",
        note="Trusted: interpreter, z3, resolver stub. More than 5 records and unlisted domain strings are outside the claim."),
    "C12": dict(
        text="Every pack/unpack pair of the DCE/RPC PDUs, security trailer, verification-trailer commands, tower floors and ept_map messages is executed on messages whose "
             "fields are solver variables over their wire widths (list sizes and payload lengths listed; towers of equal shape may be equal; listed non-ASCII secondary addresses); z3 proves repack(unpack(pack(x))) == pack(x) and field "
             "equality on every path. Every decoder is also run on every byte string of the listed short lengths, where each path must end within the step budget.",
        note="Trusted: interpreter, z3. List sizes / payload lengths not listed and arbitrary buffers longer than 16 (36 for PDUs) bytes are outside the claim; a security "
             "trailer with an empty auth value is treated as not well-formed (auth_length 0 means no trailer)."),
    "C14": dict(
        text="SyncRpcClient._send_pdu and AsyncRpcClient._send_pdu are executed against a transport stub whose read sizes are solver variables (every cut position incl. "
             "inside the 16-byte header, 12 listed positions inside long body reads, replies of 24..64 bytes and of 324 bytes (thorough up to 65024), 2-3 symbolic chunks quick, up to 5 thorough) and whose EOF point is a solver variable over every byte offset; z3/path exploration "
             "shows the decoded PDU equals the unsegmented decode on every path and that every early EOF raises within the step budget; two client objects interleaved at a blocking read each decode their own reply.",
        note="Trusted: interpreter, the recv/recv_into/readexactly contracts as stubbed. More symbolic chunks, other reply sizes and unlisted cut positions inside long reads are outside the claim."),
    "C13": dict(
        text="RpcClient._create_request/_prepare_pdu (with Request.pack, SecTrailer.pack, VerificationTrailer.pack) are executed for each listed stub length with symbolic stub "
             "content, and for a stub whose LENGTH is a solver variable (opaque content), context id and opnum against a recording security-context stub; z3 proves frag_len/auth_len, the 4-byte alignment of the verification trailer, the "
             "16-byte alignment and pad_length of the security trailer, that exactly header|stub+pad|trailer reach wrap, and the wire layout. Reply side: exactly pad_length "
             "bytes are stripped before GetKey.unpack_response for every listed (length, pad).",
        note="Trusted: interpreter, z3, the security-context stub. Content-symbolic stubs have listed lengths (0..48 and boundaries quick; 0..320 thorough); the symbolic-length harness covers every length up to its bound with opaque content; a second request on the same client and a request on a second connection with another signature size must be framed on their own."),
    "C15": dict(
        text="SyncRpcClient.bind / AsyncRpcClient.bind are executed against a scripted authentication provider (1..4 legs, optional empty final token) and a scripted server "
             "whose reply to each client PDU is chosen by the solver (proper ack with symbolic result vector / header-sign flag / token, bind_nak, fault, response, ack of the "
             "wrong type, EOF); on every path that returns, the transcript is checked: tokens relayed in order exactly once, accepted contexts only, header signing = offered "
             "and advertised by every ack, request only on an accepted context; every other script must raise.",
        note="Trusted: interpreter, z3, the provider/server stubs. Scripts longer than legs+1 replies and fragmented replies (C14) are outside the claim."),
    "C08": dict(
        text="sid_to_bytes / ace/acl/sd_to_bytes / SIDDescriptor.get_target_sd are executed on structured symbolic SID strings S-R-A-s1..sn (every n in 1..15, R in [0,9], "
             "A in [0,2^70), si in [0,2^34)): z3 proves the MS-DTYP byte layout for in-range values, ValueError for out-of-range values, injectivity, and that the target SD "
             "decodes (independent parser) to SYSTEM owner/group and the two prescribed ACEs with consistent offsets/sizes. The accepted grammar is decided by translating "
             "the regular expression the function actually applies (captured at run time) to a z3 regex with Python semantics and two language-inclusion queries.",
        note="Trusted: interpreter, z3 (bit-vectors and the sequence/regex theory), the regex translation, the SD parser in props/c08.py. Leading-zero decimal forms are "
             "not exercised symbolically; near-miss strings of the statement (plus whitespace variants) are additionally replayed natively through sid_to_bytes and through ProtectionDescriptor.parse(...).get_target_sd()."),
    "C06": dict(
        text="DPAPINGBlob.pack/unpack with KeyIdentifier, ProtectionDescriptor and all _pkcs7 classes are executed on blob values whose key-identifier fields, root key id, "
             "key_info/enc_cek/nonce and content boundary octets are solver variables (sizes listed across the DER length-form boundaries, both layouts); z3 proves the bytes "
             "equal an independently written RFC 5652 / Windows-layout DER template (calibrated on the 16 real blobs), decode(encode(x)) == x and byte-identical re-encoding. "
             "_encrypt_blob's GCM parameter construction is checked on its emitted blob. A further harness makes the encrypted content's LENGTH a solver variable over [1, 2^24) (thorough up to 2^32-200): the three nested DER length fields are proved minimal and the blob decodes back, for every length.",
        note="Trusted: interpreter, z3, the reference DER builder. Content lengths / key_info sizes not listed are outside the claim; acceptance by Windows itself is not decided."),
    "C11": dict(
        text="GroupKeyEnvelope, KeyIdentifier, KDFParameters, FFCDHParameters, FFCDHKey, ECDHKey and GetKey.pack/unpack/unpack_response are executed with every integer field "
             "symbolic over its wire width (big integers over [0, 2^(8*key_length)), so all leading-zero values), byte fields of listed lengths with symbolic content and listed "
             "names; z3 proves the bytes equal independent MS-GKDI / NDR64 reference encoders and decode(encode(x)) == x; the response decoder extracts the envelope for every "
             "length residue mod 8 (also with the envelope length a solver variable) and raises for a failure HRESULT.",
        note="Trusted: interpreter, z3, the reference encoders in props/refs.py. Byte-field lengths and names not listed are outside the claim."),
    "C01": dict(
        text="ncrypt_protect_secret -> (optional re-pack to the trailing layout) -> ncrypt_unprotect_secret (and the async twins) are executed end to end, offline, with symbolic "
             "plaintext content, 64 symbolic root-key bytes and a symbolic clock inside windows containing L2/L1/L0 boundaries, against ideal KDF/AEAD/key-wrap/RNG stubs; on "
             "every path z3 proves the returned bytes equal the plaintext symbols and no path ends in an exception. Nonce mode (4 hashes, listed plaintext lengths and SIDs, same or fresh "
             "KeyCache) and public-key mode (DH / ECDH_P256 / ECDH_P384, the harness plays the DC; decrypted by a root-key holder); also decryption by a process that only holds a DC-issued envelope for one of 12 later positions, a history of two protects at different instants on one cache followed by decryption with that cache and a fresh one, and a round trip whose plaintext LENGTH is a solver variable (every DER length-form boundary).",
        note="Trusted: interpreter, z3, the ideal-primitive contracts (incl. no collisions between distinct outputs). Bit-level crypto, clock instants outside the windows "
             "(composed from C09 and C02), unlisted lengths/SIDs and P521 are outside this check's claim."),
    "C19": dict(
        text="2..4 consecutive protect calls (identical or different arguments, one unprotect interleaved), histories of 34 (thorough 130, 260) calls, and a fork history (module-level state captured after one call; parent and child continue from it) are executed in one path "
             "against an RNG stub that tags every draw; z3 proves that each emitted blob's GCM nonce, content-encryption key (recovered through the key-wrap record) and "
             "key-identifier nonce are RNG output (a draw made at any earlier point of the history, or a contiguous slice of one) and that the pieces of RNG output used by all "
             "blobs and roles are pairwise disjoint; in public-key mode (DH, P256, P384, P521; with and without an explicit root key id on one cache) the ephemeral public key must "
             "be the group element of such a draw.",
        note="Trusted: interpreter, z3, the stubs. Statistical quality of the OS RNG is outside the technique; distinctness follows from the RNG assumption. Material that is computed "
             "rather than drawn (a counter-based nonce) is not recognised as fresh and would be reported."),
    "C04": dict(
        text="A valid blob is produced symbolically by protect (symbolic plaintext, root key, CEK, nonces, ciphertext; both layouts) and then altered: one byte replaced by a "
             "symbolic value at structural positions (thorough: every position), truncation, deletion and insertion of a symbolic byte, two-site substitutions; a re-keyed forgery (position, key_info, wrapped CEK, nonce and content replaced using only public key material); a forgery into public-key mode with a DH public key in a group of the forger's own or with degenerate / ordinary values in the root key's group (modular exponentiation obeys its exponent-independent laws); an algorithm downgrade (content OID replaced by one of 10 others; non-GCM modes decrypt without authentication in the stub world); content_decrypt on a message of symbolic length (up to 2^18, thorough 2^21) that is truncated / stripped / cut / extended at solver-chosen points; unprotect is "
             "executed on every path and z3 proves that whenever it returns, the bytes equal the original plaintext symbols.",
        note="Trusted: interpreter, z3, the ideal AEAD / key-wrap / KDF contracts (so the claim is: every byte that can influence the result reaches the authenticated "
             "primitives unchanged; GCM/AES-KW strength is outside). Structure-shifting alterations run on a blob whose opaque contents are fixed pseudo-random octets (see "
             "DESIGN.md); one configuration (SHA512, nonce mode, 5-byte plaintext)."),
    "C05": dict(
        text="Every ASN.1 reader, the CMS/blob/key-identifier decoders and the offline unprotect path are executed on arbitrary byte strings of stated small sizes, on key "
             "identifiers whose L0/L1/L2/flags/length fields are fully symbolic, on a valid symbolic blob with a symbolic byte at structural positions / truncations, and on 22 re-encodings of the CMS structure that are valid DER but not the expected shape (0/2/3 recipients, missing members, 3000-deep nestings; CPython's recursion limit is modelled); every "
             "path must end in a return, a cache miss or one of the deliberate error types within the statement budget, with at most 67 key-derivation steps and no "
             "allocation whose size is taken unchecked from the input.",
        note="Trusted: interpreter, z3, ideal-primitive and DH-algebra stubs. Whole-blob arbitrary buffers of realistic size are outside the technique; the composition "
             "argument over units is by inspection of the call graph."),
    "C10": dict(
        text="One inductive step from an arbitrary valid cache state: KeyCache._get_key and _store_key are executed with the stored envelope (absent or at any position of "
             "[0,31]^2 with the chain keys of its own position), the root-key flag and the requested / stored position all symbolic; z3 proves the representation invariant is "
             "preserved, a returned envelope always covers the request and derives the spec key, no RPC is needed when covering material exists, the stored position never "
             "decreases and a neighbour triple is untouched. The cache methods' ASTs are checked to contain no await, so interleavings are sequences of these steps. The protect glue (_get_protection_gke_from_cache then _store_key) is a third step. Thirteen "
             "operation histories (two with a second call running to completion while the first waits for its GetKey reply) (seed-key and public-key replies) run through the public API against a conforming-DC stub with an RPC counter.",
        note="Trusted: interpreter, z3, the invariant (MS-GKDI 2.2.4 shapes), chain-step KDF stub, conforming-DC stub. L0 is a listed dictionary key; await-point interleaving of "
             "the async API is argued from the AST check, not executed."),
    "C03": dict(
        text="GroupKeyEnvelope.new_kek / get_kek, compute_kek(_from_public_key), compute_public_key, the FFCDHKey/ECDHKey codecs and the _crypto.kdf / kdf_concat wrappers are "
             "executed for nonce mode, DH (symbolic p, g over small groups where leading-zero values dominate, and the RFC 5114 group) and ECDH P256/P384 with symbolic seeds, "
             "ephemeral keys and coordinates; z3 proves the encrypting side's KEK equals the decrypting side's on every path, that every KDF invocation has exactly the prescribed "
             "SP800-108 / SP800-56A parameterisation (captured constructor arguments), and that shared secrets and packed values have exactly key_length octets; a two-derivation history with different hashes on the same seed must agree with fresh derivations; the defaults of KeyCache.load_key are compared with an independently transcribed, self-checking RFC 5114 section 2.3 group.",
        note="Trusted: interpreter, z3, DH algebra stub (commutativity only, no coincidences), KDF classes replaced at their constructors. NOT decided: that cryptography's "
             "KBKDFHMAC/ConcatKDFHash/ECDH equal an independent implementation bit for bit (hashing is outside solver reach); P521; other key lengths."),
    "C17": dict(
        text="The public sync and async APIs are executed end to end against a reference domain controller written in the harness (own PDU / NDR64 / tower / MS-GKDI decoders and "
             "encoders, ideal security context, ideal KDF/AEAD/DH): the DC checks every PDU of the conversation (EPM bind + ept_map for the ISD_KEY tower, connection to the returned "
             "symbolic port (every port of each decimal digit count, echoed as the bind_ack secondary address), with auth_protocol negotiate / ntlm / kerberos, replies delivered in TCP segments, authenticated bind, PKT_PRIVACY-sealed GetKey with the ISD_KEY/NDR64 verification trailer), the decoded request must name exactly the key the blob / "
             "caller asked for, the result must decrypt, and the sync and async transcripts must be byte-wise equal.",
        note="Trusted: interpreter, z3, the reference DC and stubs. One GetKey per run; blob positions from a 3x3 corner set, listed SIDs/hashes; real NTLM/Kerberos, sockets and "
             "Windows are outside the technique."),
}

_PENDING = "check not built yet in this round (work in progress; see DESIGN.md for the plan)"
NOT_APPLICABLE = {f"C{i:02d}": _PENDING for i in range(1, 21) if f"C{i:02d}" not in CHECKS}

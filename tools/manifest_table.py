NOTES = ("All checks decide their property by bounded symbolic execution of /repo's current source (re-read on every run); bounds, stubs and what "
         "lies outside them are in DESIGN.md section 4 and in each evidence file. Exit codes: 0 held and exploration exhaustive within the bound, "
         "1 replayed violation, 2 inconclusive (solver unknown / unsupported construct / budget), 3 harness error.")

CHECKS = {
    "C07": dict(
        text="Every path of the ASN.1 writers/readers for symbolic integers (|v| <= 2^72 quick, 2^4104 thorough), booleans, OIDs (2..8 arcs, arcs < 2^64), "
             "tags (class x constructed x number < 2^32), listed content lengths and a nested writer tree is explored; on each path z3 proves the emitted "
             "octets equal an independent minimal-DER reference and the reader returns the value and consumes exactly the encoding. Exhaustive within "
             "those bounds, not beyond.",
        note="Trusted: the symbolic interpreter (cross-checked natively on every explored path), z3, the X.690 reference encoder in props/refs.py. "
             "Content lengths other than the listed ones are outside the claim."),
}

_PENDING = "check not built yet in this round (work in progress; see DESIGN.md for the plan)"
NOT_APPLICABLE = {f"C{i:02d}": _PENDING for i in range(1, 21) if f"C{i:02d}" not in CHECKS}

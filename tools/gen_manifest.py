#!/usr/bin/env python3
"""Regenerates MANIFEST.json from the table below (keeps it schema-valid at all times)."""
import json, os, sys
ROOT = os.path.dirname(os.path.dirname(os.path.abspath(__file__)))
sys.path.insert(0, ROOT)
from tools.manifest_table import CHECKS, NOT_APPLICABLE, NOTES

TECH = "bounded symbolic execution of the repo's Python functions (AST interpreter over bit-vector proxies), z3 decides every branch and assertion; counterexamples replayed natively"
checks = []
for pid, d in CHECKS.items():
    checks.append(dict(
        property_id=pid,
        quick_cmd=f"./check {pid} --tier quick",
        thorough_cmd=f"./check {pid} --tier thorough",
        evidence_file=f"/verif/evidence/{pid}.json",
        replay_cmd_template=f"./check {pid} --replay {{path}}",
        engine="symex",
        level_claimed=dict(category="model_checking", text=d["text"], design_ref=d.get("design_ref", f"DESIGN.md section 4, {pid}")),
        level_note=d["note"],
        technique=d.get("technique", TECH),
    ))
m = dict(
    version=1,
    setup_cmd="./setup.sh",
    hooks=dict(guard="DPAPI_NG_VERIF", enable="none needed: stubbing happens at call boundaries inside the symbolic interpreter; the repository is not instrumented",
               baseline_off_cmd="cd /repo && /venv/bin/python -m pytest -ra -q -p no:cacheprovider --timeout=900 --continue-on-collection-errors",
               source_commits=[], add_only=True),
    engines=[dict(name="symex", path="/verif/symex", serves_properties=sorted(CHECKS),
                  kind_free_text="purpose-built bounded symbolic executor for the repository's Python subset: AST interpreter + width-extending bit-vector ints, symbolic byte sequences, structured strings; generational path exploration with z3 (QF_BV, QF_BVFP, strings/regex for C08); 16-process work sharing; native replay")],
    checks=checks,
    notes=NOTES,
    not_applicable=[dict(property_id=k, reason=v) for k, v in NOT_APPLICABLE.items()],
)
json.dump(m, open(os.path.join(ROOT, "MANIFEST.json"), "w"), indent=1)
try:
    import jsonschema
    jsonschema.validate(m, json.load(open("/root/.vp/MANIFEST.schema.json")))
    print("MANIFEST.json valid;", len(checks), "checks,", len(NOT_APPLICABLE), "not applicable")
except ImportError:
    print("written (jsonschema not available in this interpreter)")

#!/usr/bin/env python3
"""Validate a seeded defect (from /tmp/seed/<prop>/seed_out/<v>) and run our checks against it.

usage: seed_eval.py <prop> <variant> [--checks C07,C05] [--tier quick]
 1. in the scratch worktree: patch applied -> test suite green and demo fails; patch reverted -> demo passes
 2. keep it as /verif/seeded/<prop>-<variant>/ (patch.diff, demo.py, meta.json)
 3. apply to /repo, run the listed checks (default: the property's own), record exit codes, undo
"""
import json, os, shutil, subprocess, sys, time

prop, variant = sys.argv[1], sys.argv[2]
checks = [prop]
tier = "quick"
for i, a in enumerate(sys.argv):
    if a == "--checks":
        checks = sys.argv[i + 1].split(",")
    if a == "--tier":
        tier = sys.argv[i + 1]
wt = f"/tmp/seed/{prop}"
src = f"{wt}/seed_out/{variant}"
dst = f"/verif/seeded/{prop}-{variant}"


def run(cmd, cwd=None, env=None, timeout=3600):
    e = dict(os.environ)
    e.update(env or {})
    p = subprocess.run(cmd, shell=True, cwd=cwd, env=e, capture_output=True, text=True, timeout=timeout)
    return p.returncode, (p.stdout + p.stderr)


log = {}
if os.path.isdir(src):
    run("git checkout -- src", cwd=wt)
    rc, out = run(f"git apply {src}/patch.diff", cwd=wt)
    assert rc == 0, out
    rc, out = run(f"PYTHONPATH={wt}/src /venv/bin/python -m pytest -q -p no:cacheprovider tests 2>&1 | tail -3", cwd=wt)
    log["tests_with_patch"] = out.strip().splitlines()[-1]
    rc1, out1 = run(f"PYTHONPATH={wt}/src /venv/bin/python {src}/demo.py", cwd=wt, timeout=600)
    log["demo_with_patch_exit"] = rc1
    log["demo_with_patch_tail"] = out1.strip().splitlines()[-1][:300] if out1.strip() else ""
    run("git checkout -- src", cwd=wt)
    rc2, out2 = run(f"PYTHONPATH={wt}/src /venv/bin/python {src}/demo.py", cwd=wt, timeout=600)
    log["demo_without_patch_exit"] = rc2
    ok = "276 passed" in log["tests_with_patch"] and rc1 != 0 and rc2 == 0
    log["valid"] = ok
    print("validation:", json.dumps(log))
    if not ok:
        sys.exit(2)
    os.makedirs(dst, exist_ok=True)
    for f in ("patch.diff", "demo.py"):
        shutil.copy(f"{src}/{f}", f"{dst}/{f}")
    meta = json.load(open(f"{src}/meta.json"))
else:
    meta = json.load(open(f"{dst}/meta.json"))
    log = meta.get("validation", {})

# run our checks against it
rc, out = run("git status --porcelain", cwd="/repo")
assert out.strip() == "", "repo not clean: " + out
rc, out = run(f"git apply {dst}/patch.diff", cwd="/repo")
assert rc == 0, out
results = meta.get("checks", {})
try:
    for ck in checks:
        t0 = time.time()
        rc, out = run(f"./check {ck} --tier {tier}", cwd="/verif", timeout=7200)
        viol = [l for l in out.splitlines() if l.startswith("VIOLATION")]
        detail = [l.strip()[:400] for l in out.splitlines() if l.startswith("  ") and ":" in l][:3]
        results[f"{ck}:{tier}"] = dict(exit=rc, violations=len(viol), first=detail[:2], wall_s=round(time.time() - t0, 1))
        print(f"check {ck} {tier}: exit={rc} violations={len(viol)} {detail[:1]}")
finally:
    run("git checkout -- .", cwd="/repo")
meta["validation"] = log
meta["checks"] = results
meta["ran"] = f"scratch worktree {wt}: test suite with patch, demo with/without patch; then `git -C /repo apply patch.diff`, ./check <id> --tier {tier}, `git -C /repo checkout -- .`"
json.dump(meta, open(f"{dst}/meta.json", "w"), indent=1)

"""Python regular expressions -> z3 regular expressions, with Python's semantics for the constructs the repository uses
(\\d = every Unicode Nd code point unless re.ASCII, $ = end or before a final newline, match() anchors only the start)."""
from __future__ import annotations

import re
import sys
import unicodedata

import z3

try:  # Python >= 3.11
    import re._constants as sre_c
    import re._parser as sre_parse
except ImportError:  # pragma: no cover
    import sre_constants as sre_c
    import sre_parse

from .engine import Unsupported

MAXCHAR = 0x2FFFF  # z3's character sort


def _ch(cp):
    return z3.StringVal(chr(cp))


def _range(a, b):
    return z3.Range(_ch(a), _ch(b)) if a != b else z3.Re(_ch(a))


_ND = None


def nd_ranges():
    global _ND
    if _ND is None:
        out, start, prev = [], None, None
        for cp in range(0, MAXCHAR + 1):
            if unicodedata.category(chr(cp)) == "Nd":
                if start is None:
                    start = cp
                prev = cp
            elif start is not None:
                out.append((start, prev))
                start = None
        if start is not None:
            out.append((start, prev))
        _ND = out
    return _ND


def _union(rs):
    rs = list(rs)
    if not rs:
        return z3.Empty(z3.ReSort(z3.StringSort()))
    if len(rs) == 1:
        return rs[0]
    return z3.Union(*rs)


def _category(cat, ascii_only):
    if cat == sre_c.CATEGORY_DIGIT:
        if ascii_only:
            return _range(0x30, 0x39)
        return _union(_range(a, b) for a, b in nd_ranges())
    raise Unsupported(f"regex category {cat}")


ANYCHAR = None
_SINGLE = {}


def _single_char_set(state, item, flags):
    try:
        import re._compiler as sre_compile
    except ImportError:  # pragma: no cover
        import sre_compile
    key = (repr(item), flags)
    if key not in _SINGLE:
        sub = sre_parse.SubPattern(state, [item])
        pat = sre_compile.compile(sub, flags)
        out, start, prev = [], None, None
        for cp in range(0, MAXCHAR + 1):
            if pat.fullmatch(chr(cp)):
                if start is None:
                    start = cp
                prev = cp
            elif start is not None:
                out.append((start, prev))
                start = None
        if start is not None:
            out.append((start, prev))
        _SINGLE[key] = out
    return _union(_range(a, b) for a, b in _SINGLE[key])


def anychar():
    return z3.Range(_ch(0), _ch(MAXCHAR))


class Translated:
    def __init__(self, body, end_anchor):
        self.body = body  # z3 regex of the pattern proper
        self.end_anchor = end_anchor  # None | "$" | "\\Z"


def translate(pattern: str, flags: int = 0) -> Translated:
    if isinstance(pattern, bytes):
        raise Unsupported("bytes pattern")
    p = re.compile(pattern, flags)
    flags = p.flags
    if flags & re.MULTILINE:
        raise Unsupported("regex flag MULTILINE")
    icase = bool(flags & re.IGNORECASE)
    ascii_only = bool(flags & re.ASCII)
    tree = sre_parse.parse(pattern, flags & ~re.UNICODE if ascii_only else flags)
    items = list(tree)
    end_anchor = None
    if items and items[-1][0] == sre_c.AT:
        at = items[-1][1]
        if at == sre_c.AT_END:
            end_anchor = "$"
            items = items[:-1]
        elif at == sre_c.AT_END_STRING:
            end_anchor = "\\Z"
            items = items[:-1]
    if items and items[0][0] == sre_c.AT and items[0][1] in (sre_c.AT_BEGINNING, sre_c.AT_BEGINNING_STRING):
        items = items[1:]

    def seq(its):
        parts = [one(op, av) for op, av in its]
        if not parts:
            return z3.Re(z3.StringVal(""))
        if len(parts) == 1:
            return parts[0]
        return z3.Concat(*parts)

    def one(op, av):
        if icase and op in (sre_c.LITERAL, sre_c.NOT_LITERAL, sre_c.IN, sre_c.CATEGORY):
            # case-insensitive matching of one character: ask Python's own engine about every code point (simple and full case folding,
            # e.g. 'S' also matches U+017F) instead of re-implementing its folding tables
            return _single_char_set(tree.state, (op, av), flags)
        if op == sre_c.LITERAL:
            return z3.Re(_ch(av))
        if op == sre_c.NOT_LITERAL:
            return z3.Diff(anychar(), z3.Re(_ch(av))) if hasattr(z3, "Diff") else z3.Intersect(anychar(), z3.Complement(z3.Re(_ch(av))))
        if op == sre_c.ANY:
            if flags & re.DOTALL:
                return anychar()
            return z3.Intersect(anychar(), z3.Complement(z3.Re(_ch(10))))
        if op == sre_c.IN:
            neg = False
            alts = []
            for o, a in av:
                if o == sre_c.NEGATE:
                    neg = True
                elif o == sre_c.LITERAL:
                    alts.append(z3.Re(_ch(a)))
                elif o == sre_c.RANGE:
                    alts.append(_range(a[0], a[1]))
                elif o == sre_c.CATEGORY:
                    alts.append(_category(a, ascii_only))
                else:
                    raise Unsupported(f"regex set item {o}")
            r = _union(alts)
            return z3.Intersect(anychar(), z3.Complement(r)) if neg else r
        if op in (sre_c.MAX_REPEAT, sre_c.MIN_REPEAT):
            lo, hi, sub = av
            r = seq(list(sub))
            if hi == sre_c.MAXREPEAT:
                if lo == 0:
                    return z3.Star(r)
                if lo == 1:
                    return z3.Plus(r)
                return z3.Concat(z3.Loop(r, lo, lo), z3.Star(r))
            return z3.Loop(r, lo, hi)
        if op == sre_c.SUBPATTERN:
            return seq(list(av[3]))
        if op == sre_c.BRANCH:
            return _union(seq(list(b)) for b in av[1])
        if op == sre_c.CATEGORY:
            return _category(av, ascii_only)
        if op == sre_c.AT:
            raise Unsupported("regex anchor in the middle of a pattern")
        raise Unsupported(f"regex construct {op}")

    return Translated(seq(items), end_anchor)


def language(tr: Translated, method: str):
    """the set of whole strings for which pattern.<method>(s) succeeds"""
    body = tr.body
    nl = z3.Re(_ch(10))
    if method == "fullmatch":
        if tr.end_anchor == "$":
            # fullmatch with a trailing $: the $ may match before a final newline only if the rest then matches to the end: it cannot
            return body
        return body
    if method == "match":
        if tr.end_anchor == "$":
            return z3.Concat(body, z3.Option(nl))
        if tr.end_anchor == "\\Z":
            return body
        return z3.Concat(body, z3.Star(anychar()))
    raise Unsupported(f"regex method {method}")


def decide_membership(parts, lang, timeout_ms=20000):
    """parts: list of str | ('dec', lo, hi).  Returns True / False when pattern membership does not depend on the decimal values,
    None when it does."""
    s = z3.Solver()
    s.set("timeout", timeout_ms)
    exprs = []
    canon = z3.Union(z3.Re(z3.StringVal("0")), z3.Concat(z3.Range(z3.StringVal("1"), z3.StringVal("9")), z3.Star(z3.Range(z3.StringVal("0"), z3.StringVal("9")))))
    for i, p in enumerate(parts):
        if isinstance(p, str):
            exprs.append(z3.StringVal(p))
        else:
            _, lo, hi = p
            v = z3.String(f"dec{i}")
            s.add(z3.InRe(v, canon), z3.Length(v) >= len(str(max(lo, 0))), z3.Length(v) <= len(str(hi)))
            exprs.append(v)
    whole = z3.Concat(*exprs) if len(exprs) > 1 else exprs[0]
    s.push()
    s.add(z3.InRe(whole, lang))
    can_match = s.check()
    s.pop()
    s.push()
    s.add(z3.Not(z3.InRe(whole, lang)))
    can_fail = s.check()
    s.pop()
    if can_match == z3.sat and can_fail == z3.unsat:
        return True
    if can_match == z3.unsat and can_fail == z3.sat:
        return False
    if z3.unknown in (can_match, can_fail):
        raise Unsupported("regex membership: solver unknown")
    return None


class FakeMatch:
    """truthy result of a successful match on a structured string (group access is not modelled)"""

    def __bool__(self):
        return True

    def group(self, *a):
        raise Unsupported("match.group on a structured string")

    groups = group

"""AST interpreter for the repo's own functions; everything else runs natively over the proxy values."""
from __future__ import annotations

import ast
import functools
import builtins
import enum
import hashlib
import inspect
import operator
import re
import struct
import textwrap
import types
import uuid

from . import values as V
from .engine import Engine, EngineSignal, Unsupported

_BINOPS = {
    ast.Add: operator.add, ast.Sub: operator.sub, ast.Mult: operator.mul, ast.Div: operator.truediv,
    ast.FloorDiv: operator.floordiv, ast.Mod: operator.mod, ast.Pow: operator.pow, ast.LShift: operator.lshift,
    ast.RShift: operator.rshift, ast.BitOr: operator.or_, ast.BitXor: operator.xor, ast.BitAnd: operator.and_,
    ast.MatMult: operator.matmul,
}
_CMPOPS = {
    ast.Eq: operator.eq, ast.NotEq: operator.ne, ast.Lt: operator.lt, ast.LtE: operator.le, ast.Gt: operator.gt,
    ast.GtE: operator.ge, ast.Is: operator.is_, ast.IsNot: operator.is_not,
}
_UNOPS = {ast.USub: operator.neg, ast.UAdd: operator.pos, ast.Invert: operator.invert}


class _Return(BaseException):
    def __init__(self, v):
        self.v = v


class _Break(BaseException):
    pass


class _Continue(BaseException):
    pass


def truth(v):
    """Python truthiness; symbolic values fork through their __bool__"""
    return bool(v)


class Closure:
    """function object for nested defs / lambdas evaluated by the interpreter"""

    def __init__(self, interp, node, env, globs, name="<lambda>"):
        self.interp, self.node, self.env, self.globs, self.__name__ = interp, node, env, globs, name

    def __call__(self, *args, **kwargs):
        return self.interp.run_node(self.node, self.env, self.globs, args, kwargs)


class Interp:
    """Interprets functions defined under ``prefixes`` from their source AST; everything else runs natively on the
    proxy values.  ``stubs`` is a list of ``(original object, replacement)``: the original is replaced whenever it
    is *loaded* (name or attribute) or called inside interpreted code."""

    def __init__(self, prefixes=("dpapi_ng",), stubs=None):
        self.prefixes = tuple(prefixes)
        self._ast_cache = {}
        self.encoded = {}  # qualified name -> sha256 of the source interpreted
        self.set_stubs(stubs or [])

    def set_stubs(self, stubs):
        if isinstance(stubs, dict):
            stubs = list(stubs.items())
        self._keepalive = [k for k, _ in stubs]
        self._subst = {id(k): v for k, v in stubs}

    def reset_shadows(self):
        """called at the start of every path"""
        self._shadows = {}
        self._depth = 0

    def subst(self, v):
        if self._subst:
            r = self._subst.get(id(v))
            if r is not None:
                return r
        if type(v) is bytearray:
            # a real bytearray the program did not create on this path is pre-existing shared state (a module- or class-level buffer): all
            # accesses on this path go to ONE symbolic shadow of it, so that aliasing between its users is preserved
            sh = self.__dict__.setdefault("_shadows", {})
            if id(v) not in sh:
                sh[id(v)] = (v, V.SymByteArray(list(v)))
            return sh[id(v)][1]
        return v

    # ------------------------------------------------------------------ function ASTs
    def is_target(self, fn):
        mod = getattr(fn, "__module__", None) or ""
        return isinstance(fn, types.FunctionType) and mod.startswith(self.prefixes) and fn.__code__.co_filename.endswith(".py")

    def fn_ast(self, fn):
        code = fn.__code__
        node = self._ast_cache.get(code)
        if node is None:
            src = textwrap.dedent(inspect.getsource(code))
            mod = ast.parse(src)
            node = mod.body[0]
            if not isinstance(node, (ast.FunctionDef, ast.AsyncFunctionDef)):
                raise Unsupported(f"no FunctionDef for {fn}")
            self._ast_cache[code] = node
            self.encoded[f"{fn.__module__}.{fn.__qualname__}"] = hashlib.sha256(src.encode()).hexdigest()[:16]
        return node

    # ------------------------------------------------------------------ calls
    def call(self, fn, *args, **kwargs):
        """call anything; repo functions are interpreted"""
        Engine.current.tick()
        fn = self.subst(fn)
        m = self.model_call(fn, args, kwargs)
        if m is not NotImplemented:
            return m
        if isinstance(fn, type) and not issubclass(fn, enum.Enum):
            init = _static_getattr(fn, "__init__")
            new = _static_getattr(fn, "__new__")
            if isinstance(init, types.FunctionType) and self.is_target(init) and (new is object.__new__ or new is None or not isinstance(new, types.FunctionType)):
                obj = object.__new__(fn)
                self.run_function(init, (obj,) + tuple(args), kwargs)
                return obj
            return fn(*args, **kwargs)
        if isinstance(fn, types.MethodType):
            if self._subst and id(fn.__func__) in self._subst:
                # stubbed classmethod / method: the replacement is called without the bound object
                return self._subst[id(fn.__func__)](*args, **kwargs)
            if self.is_target(fn.__func__):
                return self.run_function(fn.__func__, (fn.__self__,) + tuple(args), kwargs)
            return fn(*args, **kwargs)
        if self.is_target(fn):
            return self.run_function(fn, args, kwargs)
        w = getattr(fn, "__wrapped__", None)
        if w is not None and type(fn).__name__ == "_lru_cache_wrapper" and self.is_target(w):
            return self._lru_call(fn, w, args, kwargs)
        return fn(*args, **kwargs)

    def _lru_call(self, wrapper, fn, args, kwargs):
        """functools.lru_cache / functools.cache around a repo function: a per-path memo (reset with the shadows) looked up with solver-decided
        equality of the arguments; a hit returns the very object stored, exactly like the real cache"""
        memo = self.__dict__.setdefault("_shadows", {}).setdefault(("lru", id(wrapper)), [])
        key = tuple(args) + tuple(sorted(kwargs.items()))
        for k, v in memo:
            if len(k) == len(key) and all(truth(V.sym_equal(a, b)) for a, b in zip(k, key)):
                return v
        v = self.run_function(fn, args, kwargs)
        memo.append((key, v))
        return v

    RECURSION_LIMIT = 950  # CPython's default recursion limit is 1000 frames; a caller of the library typically sits a few dozen frames deep

    def run_function(self, fn, args, kwargs):
        d = self.__dict__.get("_depth", 0)
        if d >= self.RECURSION_LIMIT:
            raise RecursionError("maximum recursion depth exceeded (interpreted call depth)")
        self._depth = d + 1
        try:
            return self._run_function(fn, args, kwargs)
        finally:
            self._depth = d

    def _run_function(self, fn, args, kwargs):
        node = self.fn_ast(fn)
        sig = inspect.signature(fn)
        ba = sig.bind(*args, **kwargs)
        ba.apply_defaults()
        env = dict(ba.arguments)
        # closure cells
        if fn.__closure__:
            for name, cell in zip(fn.__code__.co_freevars, fn.__closure__):
                try:
                    env.setdefault(name, cell.cell_contents)
                except ValueError:
                    pass
        if "__class__" in fn.__code__.co_freevars:
            pass
        return self.exec_body(node, env, fn.__globals__)

    def run_node(self, node, outer_env, globs, args, kwargs):
        env = dict(outer_env)  # read-only capture is enough for the repo's closures
        a = node.args
        params = [p.arg for p in a.posonlyargs + a.args]
        defaults = a.defaults
        for i, name in enumerate(params):
            if i < len(args):
                env[name] = args[i]
            elif name in kwargs:
                env[name] = kwargs[name]
            else:
                d = i - (len(params) - len(defaults))
                env[name] = self.eval(defaults[d], outer_env, globs)
        if a.vararg:
            env[a.vararg.arg] = tuple(args[len(params):])
        for p, d in zip(a.kwonlyargs, a.kw_defaults):
            env[p.arg] = kwargs[p.arg] if p.arg in kwargs else self.eval(d, outer_env, globs)
        if isinstance(node, ast.Lambda):
            return self.eval(node.body, env, globs)
        return self.exec_body(node, env, globs)

    def exec_body(self, node, env, globs):
        try:
            self.exec_block(node.body, env, globs)
        except _Return as r:
            return r.v
        return None

    # ------------------------------------------------------------------ models of builtins over symbolic values
    def model_call(self, fn, args, kwargs):
        S = V
        if fn is len:
            return S.blen(args[0])
        if fn is next and args and isinstance(args[0], list):
            # generator expressions are evaluated eagerly into lists by this interpreter: next() consumes from the front
            if args[0]:
                return args[0].pop(0)
            if len(args) > 1:
                return args[1]
            raise StopIteration
        if fn is isinstance:
            obj, cls = args
            return _isinstance(obj, cls)
        if fn is memoryview:
            if isinstance(args[0], S.SymBlob):
                v = S.SymBlob(args[0].segs, "memoryview" if args[0].kind != "bytearray" else "memoryview")
                if args[0].kind == "bytearray":
                    v.segs = args[0].segs  # a view of a bytearray writes through
                    v.base = args[0]
                return v
            return S.SymView(args[0])
        if fn is bytearray:
            if not args:
                return S.SymByteArray()
            a = args[0]
            if isinstance(a, S.SymBlob):
                return a.copy_as("bytearray")
            if isinstance(a, int):
                return S.SymByteArray([0] * S.alloc_guard(a))
            if isinstance(a, S.SymInt):
                return S.SymByteArray([0] * S.alloc_guard(a))
            return S.SymByteArray(S.seq_items(a))
        if fn is bytes:
            if not args:
                return b""
            a = args[0]
            if isinstance(a, S.SymBlob):
                return a.copy_as("bytes")
            if isinstance(a, (S.SymSeq, list, tuple)):
                return S.SymBytes(S.seq_items(a)).norm()
            return bytes(*args, **kwargs)
        if fn is bool:
            return truth(args[0]) if args else False
        if fn is int and len(args) == 1 and isinstance(args[0], V.SymFloat):
            return args[0].to_int()
        if fn is int and len(args) == 1 and isinstance(args[0], (S.SymInt, S.SymBool)):
            return S.SymInt.lift(args[0]) if isinstance(args[0], S.SymBool) else args[0]
        if fn is int and len(args) == 1 and isinstance(args[0], S.SymStr):
            return args[0].to_int()
        if fn is str and len(args) == 1 and isinstance(args[0], S.SymInt):
            return S.SymStr.dec(args[0])
        if fn is str and len(args) == 1 and isinstance(args[0], S.SymStr):
            return args[0]
        if fn is map and len(args) == 2:
            return [self.call(args[0], x) for x in args[1]]
        if fn is list and len(args) == 1 and isinstance(args[0], list):
            return list(args[0])
        if fn is range:
            if any(isinstance(a, S.SymInt) for a in args):
                return _sym_range(*args)
            return range(*args)
        if fn is struct.unpack:
            fmt, buf = args
            if isinstance(buf, S.SymSeq):
                return S.struct_unpack(fmt, buf)
            return struct.unpack(fmt, buf)
        if fn is struct.pack and any(isinstance(a, (S.SymInt, S.SymSeq, S.SymBool)) for a in args[1:]):
            return S.struct_pack(args[0], *args[1:])
        if fn is uuid.UUID and any(isinstance(v, S.SymSeq) for v in kwargs.values()):
            return SymUUID(bytes_le=kwargs["bytes_le"])
        if fn is object.__setattr__:
            return object.__setattr__(*args)
        if isinstance(fn, type) and issubclass(fn, enum.Enum) and args and isinstance(args[0], S.SymInt):
            return _enum_lookup(fn, args[0])
        bself = getattr(fn, "__self__", None)
        name = getattr(fn, "__name__", "")
        if isinstance(bself, re.Pattern) and name in ("match", "fullmatch", "search") and args and isinstance(args[0], (S.SymStr, S.AnyStr)):
            return _regex_call(bself.pattern, bself.flags, name, args[0])
        if fn in (re.match, re.fullmatch, re.search) and len(args) >= 2 and isinstance(args[1], (S.SymStr, S.AnyStr)):
            flags = args[2] if len(args) > 2 else kwargs.get("flags", 0)
            return _regex_call(args[0], int(flags), fn.__name__, args[1])
        if isinstance(bself, int) and not isinstance(bself, bool) and name == "to_bytes" and args and isinstance(args[0], (int, S.SymInt)):
            return bself.to_bytes(S.alloc_guard(args[0]), *args[1:], **kwargs)
        if bself is int and name == "from_bytes":
            return S.int_from_bytes(*args, **kwargs)
        if isinstance(bself, (bytes, bytearray)) and isinstance(fn, types.BuiltinMethodType):
            if name == "join":
                parts = list(args[0])
                if any(isinstance(p, S.SymBlob) for p in parts):
                    segs = []
                    for i, p in enumerate(parts):
                        if i and bself:
                            segs.append(("lit", list(bself)))
                        segs.extend(S.SymBlob.of(p).segs)
                    return S.SymBlob(segs, "bytes").norm()
                if any(isinstance(p, S.SymSeq) for p in parts):
                    items = []
                    for i, p in enumerate(parts):
                        if i:
                            items.extend(bself)
                        items.extend(S.seq_items(p))
                    return S.SymBytes(items).norm()
                return bself.join(parts)
        if isinstance(bself, str) and name == "join" and isinstance(fn, types.BuiltinMethodType):
            parts = list(args[0])
            if any(isinstance(p, S.SymStr) for p in parts):
                return S.SymStr.join(bself, parts)
            return bself.join(parts)
        if isinstance(bself, dict) and name in ("get", "setdefault", "pop", "__getitem__", "__contains__") and args and (
                S.is_sym_key(args[0]) or any(isinstance(k, S.SymKey) for k in bself)) and not (isinstance(args[0], S.SymInt) and not args[0]._wide()):
            k = S.dict_find(bself, args[0])
            if name == "__contains__":
                return k is not None
            if k is not None:
                return bself.pop(k) if name == "pop" else bself[k]
            if name == "get":
                return args[1] if len(args) > 1 else None
            if name == "pop":
                if len(args) > 1:
                    return args[1]
                raise KeyError("<symbolic key>")
            if name == "__getitem__":
                raise KeyError("<symbolic key>")
            bself[S.SymKey(args[0]) if S.is_sym_key(args[0]) else args[0]] = args[1] if len(args) > 1 else None
            return args[1] if len(args) > 1 else None
        if isinstance(bself, dict) and name in ("get", "setdefault", "__getitem__") and args and isinstance(args[0], S.SymInt):
            # fork over the keys present (|keys|+1 paths) instead of over all values of the symbolic key
            for k in list(bself):
                if isinstance(k, int) and truth(args[0] == k):
                    return fn(k, *args[1:])
            if name == "get":
                return args[1] if len(args) > 1 else None
            if name == "__getitem__":
                raise KeyError("<symbolic key>")
            k = Engine.current.concretize(args[0])
            return fn(k, *args[1:])
        return NotImplemented

    # ------------------------------------------------------------------ statements
    def exec_block(self, stmts, env, globs):
        for s in stmts:
            self.exec_stmt(s, env, globs)

    def exec_stmt(self, s, env, globs):
        Engine.current.tick()
        m = getattr(self, "s_" + type(s).__name__, None)
        if m is None:
            raise Unsupported(f"statement {type(s).__name__}")
        return m(s, env, globs)

    def s_Expr(self, s, env, globs):
        self.eval(s.value, env, globs)

    def s_Pass(self, s, env, globs):
        pass

    def s_Global(self, s, env, globs):
        # names declared global are read from / written to the module dictionary (restored between paths, see vlib.api.ModuleState)
        env.setdefault("__global_names__", set()).update(s.names)

    def s_Return(self, s, env, globs):
        raise _Return(self.eval(s.value, env, globs) if s.value else None)

    def s_Break(self, s, env, globs):
        raise _Break()

    def s_Continue(self, s, env, globs):
        raise _Continue()

    def s_Assign(self, s, env, globs):
        v = self.eval(s.value, env, globs)
        for t in s.targets:
            self.assign(t, v, env, globs)

    def s_AnnAssign(self, s, env, globs):
        if s.value is not None:
            self.assign(s.target, self.eval(s.value, env, globs), env, globs)

    def s_AugAssign(self, s, env, globs):
        op = _BINOPS[type(s.op)]
        iop = getattr(operator, "i" + op.__name__.strip("_"), None)
        t = s.target
        if isinstance(t, ast.Name):
            cur = self.lookup(t.id, env, globs)
            (globs if t.id in env.get("__global_names__", ()) else env)[t.id] = (iop or op)(cur, self.eval(s.value, env, globs))
        elif isinstance(t, ast.Subscript):
            obj = self.eval(t.value, env, globs)
            key = self.eval_slice(t.slice, env, globs)
            obj[key] = op(obj[key], self.eval(s.value, env, globs))
        elif isinstance(t, ast.Attribute):
            obj = self.eval(t.value, env, globs)
            setattr(obj, t.attr, (iop or op)(getattr(obj, t.attr), self.eval(s.value, env, globs)))
        else:
            raise Unsupported("augassign target")

    def s_If(self, s, env, globs):
        if truth(self.eval(s.test, env, globs)):
            self.exec_block(s.body, env, globs)
        else:
            self.exec_block(s.orelse, env, globs)

    def s_While(self, s, env, globs):
        while truth(self.eval(s.test, env, globs)):
            try:
                self.exec_block(s.body, env, globs)
            except _Break:
                return
            except _Continue:
                continue
        self.exec_block(s.orelse, env, globs)

    def s_For(self, s, env, globs):
        it = self.eval(s.iter, env, globs)
        for v in it:
            Engine.current.tick()
            self.assign(s.target, v, env, globs)
            try:
                self.exec_block(s.body, env, globs)
            except _Break:
                return
            except _Continue:
                continue
        self.exec_block(s.orelse, env, globs)

    def s_Raise(self, s, env, globs):
        if s.exc is None:
            raise
        exc = self.eval(s.exc, env, globs)
        if s.cause is not None:
            raise exc from self.eval(s.cause, env, globs)
        raise exc

    def s_Assert(self, s, env, globs):
        if not truth(self.eval(s.test, env, globs)):
            raise AssertionError(self.eval(s.msg, env, globs) if s.msg else None)

    def s_Try(self, s, env, globs):
        try:
            try:
                self.exec_block(s.body, env, globs)
            except (EngineSignal, _Return, _Break, _Continue):
                raise
            except BaseException as e:
                for h in s.handlers:
                    et = self.eval(h.type, env, globs) if h.type is not None else BaseException
                    if isinstance(e, et):
                        if h.name:
                            env[h.name] = e
                        self.exec_block(h.body, env, globs)
                        break
                else:
                    raise
            else:
                self.exec_block(s.orelse, env, globs)
        finally:
            self.exec_block(s.finalbody, env, globs)

    def s_With(self, s, env, globs):
        self._with(s.items, 0, s.body, env, globs)

    s_AsyncWith = s_With

    def _with(self, items, i, body, env, globs):
        if i == len(items):
            return self.exec_block(body, env, globs)
        item = items[i]
        mgr = self.eval(item.context_expr, env, globs)
        aenter = getattr(type(mgr), "__aenter__", None)
        enter = getattr(mgr, "__enter__", None) or getattr(mgr, "__aenter__")
        exit_ = getattr(mgr, "__exit__", None) or getattr(mgr, "__aexit__")
        v = self._await(self.call(enter))
        if item.optional_vars is not None:
            self.assign(item.optional_vars, v, env, globs)
        try:
            self._with(items, i + 1, body, env, globs)
        except (EngineSignal,):
            raise
        except (_Return, _Break, _Continue):
            self._await(self.call(exit_, None, None, None))
            raise
        except BaseException as e:
            if not truth(self._await(self.call(exit_, type(e), e, e.__traceback__))):
                raise
        else:
            self._await(self.call(exit_, None, None, None))

    def s_FunctionDef(self, s, env, globs):
        env[s.name] = Closure(self, s, env, globs, s.name)

    def s_Delete(self, s, env, globs):
        for t in s.targets:
            if isinstance(t, ast.Name):
                del env[t.id]
            elif isinstance(t, ast.Subscript):
                del self.eval(t.value, env, globs)[self.eval_slice(t.slice, env, globs)]
            else:
                raise Unsupported("del target")

    # ------------------------------------------------------------------ assignment targets
    def assign(self, t, v, env, globs):
        if isinstance(t, ast.Name):
            (globs if t.id in env.get("__global_names__", ()) else env)[t.id] = v
        elif isinstance(t, (ast.Tuple, ast.List)):
            vals = list(v)
            if len(vals) != len(t.elts):
                raise ValueError("unpack length mismatch")
            for tt, vv in zip(t.elts, vals):
                self.assign(tt, vv, env, globs)
        elif isinstance(t, ast.Attribute):
            setattr(self.eval(t.value, env, globs), t.attr, v)
        elif isinstance(t, ast.Subscript):
            obj = self.eval(t.value, env, globs)
            key = self.eval_slice(t.slice, env, globs)
            if isinstance(obj, dict) and (V.is_sym_key(key) or any(isinstance(k, V.SymKey) for k in obj)) and not (isinstance(key, V.SymInt) and not key._wide()):
                k = V.dict_find(obj, key)
                obj[k if k is not None else (V.SymKey(key) if V.is_sym_key(key) else key)] = v
                return
            if isinstance(obj, dict) and isinstance(key, V.SymInt):
                # dictionary store with a symbolic key: an existing equal key, else one path per feasible value
                for k in list(obj):
                    if isinstance(k, int) and truth(key == k):
                        key = k
                        break
                else:
                    key = Engine.current.concretize(key)
            obj[key] = v
        else:
            raise Unsupported(f"assign target {type(t).__name__}")

    # ------------------------------------------------------------------ expressions
    def lookup(self, name, env, globs):
        if name in env:
            return env[name]
        if name in globs:
            return globs[name]
        try:
            return getattr(builtins, name)
        except AttributeError:
            raise NameError(name)

    def eval(self, e, env, globs):
        m = getattr(self, "e_" + type(e).__name__, None)
        if m is None:
            raise Unsupported(f"expression {type(e).__name__}")
        return m(e, env, globs)

    def eval_slice(self, e, env, globs):
        if isinstance(e, ast.Slice):
            return slice(
                self.eval(e.lower, env, globs) if e.lower else None,
                self.eval(e.upper, env, globs) if e.upper else None,
                self.eval(e.step, env, globs) if e.step else None,
            )
        return self.eval(e, env, globs)

    def e_Constant(self, e, env, globs):
        return e.value

    def e_Name(self, e, env, globs):
        return self.subst(self.lookup(e.id, env, globs))

    def e_Attribute(self, e, env, globs):
        obj = self.eval(e.value, env, globs)
        # properties defined in the repo are interpreted so symbolic values flow through them
        if not isinstance(obj, type):
            p = _static_getattr(type(obj), e.attr)
            if isinstance(p, property) and p.fget is not None and self.is_target(p.fget):
                return self.run_function(p.fget, (obj,), {})
            if isinstance(p, functools.cached_property) and self.is_target(p.func):
                # functools.cached_property: computed once per instance, kept in the instance dictionary
                cache = obj.__dict__
                if e.attr not in cache:
                    cache[e.attr] = self.run_function(p.func, (obj,), {})
                return self.subst(cache[e.attr])
        return self.subst(getattr(obj, e.attr))

    def e_Subscript(self, e, env, globs):
        obj = self.eval(e.value, env, globs)
        key = self.eval_slice(e.slice, env, globs)
        if isinstance(obj, dict) and (V.is_sym_key(key) or any(isinstance(k, V.SymKey) for k in obj)):
            k = V.dict_find(obj, key)
            if k is None:
                raise KeyError("<symbolic key>")
            return obj[k]
        if isinstance(key, V.SymInt) and isinstance(obj, (list, tuple, dict, bytes, bytearray, memoryview, str)):
            if isinstance(obj, (bytes, bytearray, memoryview)):
                return V.SymBytes(list(bytes(obj)))[key]
            if isinstance(obj, dict):
                for k in list(obj):
                    if isinstance(k, int) and truth(key == k):
                        return obj[k]
                raise KeyError("<symbolic key>")
            key = Engine.current.concretize(key)
        if isinstance(key, slice) and isinstance(obj, (bytes, bytearray, memoryview)) and any(
            isinstance(x, V.SymInt) for x in (key.start, key.stop, key.step)
        ):
            return V.SymBytes(list(bytes(obj)))[key]
        return obj[key]

    def e_Tuple(self, e, env, globs):
        return tuple(self._elts(e.elts, env, globs))

    def e_List(self, e, env, globs):
        return self._elts(e.elts, env, globs)

    def e_Set(self, e, env, globs):
        return set(self._elts(e.elts, env, globs))

    def _elts(self, elts, env, globs):
        out = []
        for x in elts:
            if isinstance(x, ast.Starred):
                out.extend(self.eval(x.value, env, globs))
            else:
                out.append(self.eval(x, env, globs))
        return out

    def e_Dict(self, e, env, globs):
        pairs = []
        for k, v in zip(e.keys, e.values):
            if k is None:
                m = self.eval(v, env, globs)
                pairs.extend(m.items())
            else:
                pairs.append((self.eval(k, env, globs), self.eval(v, env, globs)))
        d = V.SymDict() if any(isinstance(k, (V.SymStr, V.SymInt, V.SymSeq)) for k, _ in pairs) else {}
        for k, v in pairs:
            d[k] = v
        return d

    def e_BinOp(self, e, env, globs):
        a, b = self.eval(e.left, env, globs), self.eval(e.right, env, globs)
        if isinstance(e.op, ast.Div) and (isinstance(a, V.SymInt) or isinstance(b, V.SymInt)):
            return V.sym_truediv(a, b)
        if isinstance(e.op, ast.Mult) and isinstance(b, V.SymInt) and isinstance(a, (bytes, bytearray)):
            return a * V.alloc_guard(b)
        if isinstance(e.op, ast.Mult) and isinstance(b, V.SymInt) and isinstance(a, (list, tuple)):
            # a list of 8-byte references per element: the same allocation budget, counted in bytes
            return a * (V.alloc_guard(b * 8 * max(len(a), 1)) // (8 * max(len(a), 1)))
        if isinstance(e.op, ast.Mult) and isinstance(a, V.SymInt) and isinstance(b, (list, tuple)):
            return b * (V.alloc_guard(a * 8 * max(len(b), 1)) // (8 * max(len(b), 1)))
        if isinstance(e.op, ast.Mult) and isinstance(b, int) and not isinstance(b, bool) and isinstance(a, (bytes, bytearray)) and len(a) * b > V.SYM_ALLOC_CAP:
            V.alloc_guard(len(a) * b)
        return _BINOPS[type(e.op)](a, b)

    def e_UnaryOp(self, e, env, globs):
        v = self.eval(e.operand, env, globs)
        if isinstance(e.op, ast.Not):
            return not truth(v)
        return _UNOPS[type(e.op)](v)

    def e_BoolOp(self, e, env, globs):
        if isinstance(e.op, ast.And):
            v = True
            for x in e.values:
                v = self.eval(x, env, globs)
                if not truth(v):
                    return v
            return v
        v = False
        for x in e.values:
            v = self.eval(x, env, globs)
            if truth(v):
                return v
        return v

    def e_Compare(self, e, env, globs):
        left = self.eval(e.left, env, globs)
        res = True
        for op, c in zip(e.ops, e.comparators):
            right = self.eval(c, env, globs)
            if isinstance(op, ast.In):
                res = self._contains(right, left)
            elif isinstance(op, ast.NotIn):
                res = not self._contains(right, left)
            else:
                res = _CMPOPS[type(op)](left, right)
            if len(e.ops) > 1 and not truth(res):
                return res
            left = right
        return res

    def _contains(self, container, item):
        if isinstance(container, dict) and (V.is_sym_key(item) or any(isinstance(k, V.SymKey) for k in container)):
            return V.dict_find(container, item) is not None
        if isinstance(container, (list, tuple)) and (isinstance(item, (V.SymInt, V.SymSeq)) or any(isinstance(x, (V.SymInt, V.SymSeq)) for x in container)):
            return any(truth(x == item) for x in container)
        if isinstance(item, V.SymInt):
            item = Engine.current.concretize(item)
        return item in container

    def e_IfExp(self, e, env, globs):
        return self.eval(e.body if truth(self.eval(e.test, env, globs)) else e.orelse, env, globs)

    def e_Lambda(self, e, env, globs):
        return Closure(self, e, env, globs)

    def e_JoinedStr(self, e, env, globs):
        return "".join(self.eval(v, env, globs) for v in e.values)

    def e_FormattedValue(self, e, env, globs):
        v = self.eval(e.value, env, globs)
        if e.conversion == ord("r"):
            v = repr(v)
        elif e.conversion == ord("s"):
            v = str(v)
        spec = self.eval(e.format_spec, env, globs) if e.format_spec else ""
        if isinstance(v, (V.SymInt, V.SymBool, V.SymSeq, V.SymStr)):
            return "<sym>"
        try:
            return format(v, spec)
        except EngineSignal:
            raise
        except TypeError:
            return repr(v)

    def e_Await(self, e, env, globs):
        return self._await(self.eval(e.value, env, globs))

    def _await(self, v):
        if inspect.iscoroutine(v):
            try:
                while True:
                    v.send(None)
            except StopIteration as si:
                return si.value
        return v

    def _comp(self, gens, i, env, globs, emit):
        if i == len(gens):
            emit(env)
            return
        g = gens[i]
        for v in self.eval(g.iter, env, globs):
            Engine.current.tick()
            self.assign(g.target, v, env, globs)
            if all(truth(self.eval(c, env, globs)) for c in g.ifs):
                self._comp(gens, i + 1, env, globs, emit)

    def e_ListComp(self, e, env, globs):
        out, env2 = [], dict(env)
        self._comp(e.generators, 0, env2, globs, lambda en: out.append(self.eval(e.elt, en, globs)))
        return out

    e_GeneratorExp = e_ListComp

    def e_SetComp(self, e, env, globs):
        return set(self.e_ListComp(e, env, globs))

    def e_DictComp(self, e, env, globs):
        pairs, env2 = [], dict(env)
        self._comp(e.generators, 0, env2, globs, lambda en: pairs.append((self.eval(e.key, en, globs), self.eval(e.value, en, globs))))
        out = V.SymDict() if any(isinstance(k, (V.SymStr, V.SymInt, V.SymSeq)) for k, _ in pairs) else {}
        for k, v in pairs:
            out[k] = v
        return out

    def e_Call(self, e, env, globs):
        # super() needs the defining class: resolve through the interpreter frame
        if isinstance(e.func, ast.Name) and e.func.id == "super" and not e.args:
            self_obj = env.get("self", env.get("cls"))
            cls = env.get("__class__")
            if cls is None:
                raise Unsupported("zero-arg super() without __class__")
            return super(cls, self_obj)
        fn = self.eval(e.func, env, globs)
        args = self._elts(e.args, env, globs)
        kwargs = {}
        for k in e.keywords:
            if k.arg is None:
                kwargs.update(self.eval(k.value, env, globs))
            else:
                kwargs[k.arg] = self.eval(k.value, env, globs)
        return self.call(fn, *args, **kwargs)

    def e_Starred(self, e, env, globs):
        raise Unsupported("bare starred")

    def e_Slice(self, e, env, globs):
        return self.eval_slice(e, env, globs)


# ---------------------------------------------------------------------- helpers


def _key(fn):
    f = getattr(fn, "__func__", fn)
    return str(getattr(f, "__module__", "?")) + ":" + str(getattr(f, "__qualname__", repr(f)))


def _static_getattr(cls, name):
    for k in cls.__mro__:
        if name in k.__dict__:
            return k.__dict__[name]
    return None


def _isinstance(obj, cls):
    if isinstance(cls, tuple):
        return any(_isinstance(obj, c) for c in cls)
    if isinstance(obj, V.SymInt):
        return cls in (int, object) or (isinstance(cls, type) and issubclass(int, cls) and cls is not bool)
    if isinstance(obj, V.SymBool):
        return cls in (bool, int, object)
    if isinstance(obj, V.SymBytes):
        return cls in (bytes, object)
    if isinstance(obj, V.SymByteArray):
        return cls in (bytearray, object)
    if isinstance(obj, V.SymView):
        return cls in (memoryview, object)
    if isinstance(obj, V.SymBlob):
        return cls in ({"bytes": bytes, "bytearray": bytearray, "memoryview": memoryview}[obj.kind], object)
    if isinstance(obj, SymUUID):
        return cls in (uuid.UUID, object)
    if isinstance(obj, V.SymStr):
        return cls in (str, object)
    if isinstance(obj, V.SymDict):
        return cls in (dict, object)
    return isinstance(obj, cls)


class _SymRange:
    """range() with a symbolic bound: iteration is lazy (one solver decision per element); len(), indexing and slicing materialise it"""

    def __init__(self, *args):
        self.args = args

    def __iter__(self):
        return _sym_range_gen(*self.args)

    def _list(self):
        out = []
        for x in self:
            out.append(x)
            if len(out) > 1 << 16:
                raise Unsupported("range() with a symbolic bound and more than 65536 elements is materialised")
        return out

    def __getitem__(self, k):
        return self._list()[k]

    def __len__(self):
        return len(self._list())

    def __reversed__(self):
        return reversed(self._list())

    def __contains__(self, x):
        return any(truth(x == y) for y in self._list())


def _sym_range(*args):
    return _SymRange(*args)


def _sym_range_gen(*args):
    start, stop, step = (0, args[0], 1) if len(args) == 1 else ((args[0], args[1], 1) if len(args) == 2 else args)
    if isinstance(step, V.SymInt):
        step = Engine.current.concretize(step)
    if isinstance(start, V.SymInt):
        start = Engine.current.concretize(start)
    i = start
    while bool(i < stop) if step > 0 else bool(i > stop):
        yield i
        i += step


def _enum_lookup(cls, v):
    import z3
    if issubclass(cls, enum.IntFlag):
        return v  # any int is a valid IntFlag value (KEEP boundary); keep the raw symbolic int
    if issubclass(cls, int) and "_missing_" not in cls.__dict__:
        # IntEnum: members compare equal to their int value, so keep the symbolic int once it is known valid
        vals = sorted({m.value for m in cls})
        ok = V.mkbool(z3.Or(*[(v == x).t for x in vals if not isinstance(v == x, bool)] or [z3.BoolVal(False)]))
        if bool(ok):
            return SymEnum(v, cls)
        raise ValueError(f"<symbolic> is not a valid {cls.__name__}")
    if issubclass(cls, int) and "_missing_" in cls.__dict__:
        # IntEnum with a catch-all _missing_ (every int is accepted).  If the placeholder members it creates have the right integer value,
        # members compare equal to ints and the symbolic int itself can stand for the member.  If they do not (int.__new__(cls) without the
        # value gives 0), the model has to be faithful to that: a proxy whose integer value is the placeholder's and whose .value is symbolic.
        q = _missing_quirk(cls)
        if q is None:
            return SymEnum(v, cls)
        for m in cls:
            if isinstance(m.value, int) and truth(v == m.value):
                return m
        return EnumProxy(q, v, cls)
    for m in cls:
        if bool(v == m.value):
            return m
    c = Engine.current.concretize(v)
    return cls(c)  # _missing_ / ValueError natively


_QUIRKS = {}


def _missing_quirk(cls):
    """None if cls(<unknown value>) is an int equal to that value, else the integer value such placeholder members really have"""
    if cls not in _QUIRKS:
        known = {m.value for m in cls}
        probe = next(x for x in range(1, 1 << 16) if x not in known)
        try:
            m = cls(probe)
            _QUIRKS[cls] = None if int(m) == probe else int(m)
            cls._value2member_map_.pop(probe, None)
        except Exception:
            _QUIRKS[cls] = None
    return _QUIRKS[cls]


class SymEnum(V.SymInt):
    """member of an IntEnum looked up by a symbolic value: the symbolic int itself (members compare equal to their value), which also knows
    its enumeration so that .name can be answered (forks over the members)"""

    __slots__ = ("enum_cls",)

    def __init__(self, v, enum_cls):
        V.SymInt.__init__(self, v.t, v.lo, v.hi)
        self.enum_cls = enum_cls

    def _member(self):
        for m in self.enum_cls:
            if isinstance(m.value, int) and truth(self == m.value):
                return m
        return self.enum_cls(Engine.current.concretize(self))  # _missing_ placeholder

    @property
    def name(self):
        return self._member().name

    _name_ = name


class EnumProxy(int):
    """placeholder member of an IntEnum whose _missing_ builds members with a fixed integer value: behaves as that integer, .value is the
    (symbolic) value it was created for"""

    def __new__(cls, intval, value, enum_cls):
        o = int.__new__(cls, intval)
        o.value = o._value_ = value
        o.enum_cls = enum_cls
        o.name = o._name_ = "<unknown member>"
        return o

    def __repr__(self):
        return f"<{self.enum_cls.__name__} unknown>"

    __str__ = __repr__

    def __format__(self, spec):
        return "<sym>"

    def __hash__(self):
        return int.__hash__(self)


class RegexProbe(EngineSignal):
    """raised when a regular expression is applied to the universal string S.AnyStr: carries what was asked"""

    def __init__(self, pattern, flags, method):
        self.pattern, self.flags, self.method = pattern, flags, method


def _regex_call(pattern, flags, method, subject):
    from . import regex as R

    if isinstance(subject, V.AnyStr):
        raise RegexProbe(pattern, flags, method)
    if method == "search":
        raise Unsupported("re.search on a structured string")
    lang = R.language(R.translate(pattern, flags), method)
    pieces = list(subject.parts)
    for _ in range(64):
        parts = []
        for p in pieces:
            if isinstance(p, str):
                parts.append(p)
            elif p[0] == "dec":
                parts.append(("dec", p[1].lo, p[1].hi) if not isinstance(p[1], int) else str(p[1]))
            else:
                # a symbolic character: fork on its value class is not modelled -> concretise it
                parts.append(chr(Engine.current.concretize(p[1])))
        r = R.decide_membership(parts, lang)
        if r is not None:
            break
        # membership depends on the *number of digits* of some decimal field (e.g. \\d{1,10}): fork on the digit count of the first field that spans several
        for i, p in enumerate(pieces):
            if not isinstance(p, str) and p[0] == "dec" and not isinstance(p[1], int) and len(str(max(p[1].lo, 0))) != len(str(p[1].hi)):
                v = p[1]
                bound = 10 ** len(str(max(v.lo, 0)))
                if truth(v < bound):
                    pieces[i] = ("dec", V.SymInt.mk(v.t, v.lo, bound - 1))
                else:
                    pieces[i] = ("dec", V.SymInt.mk(v.t, bound, v.hi))
                break
        else:
            raise Unsupported("regex match depends on the values of the symbolic decimal fields")
    else:
        raise Unsupported("regex match could not be decided by digit-count refinement")
    return R.FakeMatch() if r else None


class _Ratio:
    def __init__(self, a, b):
        self.a, self.b = a, b


class SymUUID:
    """uuid.UUID whose 16 bytes are (partly) symbolic; only the byte-level API the repo uses"""

    def __init__(self, bytes_le):
        if len(bytes_le) != 16:
            raise ValueError("bytes_le is not a 16-char string")
        self.bytes_le = bytes_le if isinstance(bytes_le, V.SymSeq) else bytes(bytes_le)

    def __eq__(self, o):
        if isinstance(o, uuid.UUID):
            return self.bytes_le == o.bytes_le
        if isinstance(o, SymUUID):
            return self.bytes_le == o.bytes_le
        return False

    def __hash__(self):
        b = self.bytes_le.realize() if isinstance(self.bytes_le, V.SymSeq) else bytes(self.bytes_le)
        return hash(uuid.UUID(bytes_le=b))

    @property
    def bytes(self):
        le = V.seq_items(self.bytes_le)
        return V.SymBytes(le[3::-1] + le[5:3:-1] + le[7:5:-1] + le[8:]).norm()

    @property
    def int(self):
        return V.int_from_bytes(self.bytes, "big")

    def __bool__(self):
        return True

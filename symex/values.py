"""Symbolic value proxies: adaptive-width signed bit-vector ints, bools, byte sequences."""
from __future__ import annotations

import z3


def _eng():
    from . import engine

    return engine.Engine.current


def fit(lo: int, hi: int) -> int:
    """minimal signed width holding [lo, hi]"""
    w = 1
    while not (-(1 << (w - 1)) <= lo and hi < (1 << (w - 1))):
        w += 1
    return w


def resize(t, w):
    s = t.size()
    if s == w:
        return t
    if s < w:
        return z3.SignExt(w - s, t)
    return z3.Extract(w - 1, 0, t)


class SymBool:
    __slots__ = ("t",)

    def __init__(self, t):
        self.t = t

    def __bool__(self):
        return _eng().decide(self.t)

    def __invert__(self):
        return SymBool(z3.Not(self.t))

    def __and__(self, o):
        return SymBool(z3.And(self.t, tobool(o)))

    __rand__ = __and__

    def __or__(self, o):
        return SymBool(z3.Or(self.t, tobool(o)))

    __ror__ = __or__

    def __eq__(self, o):
        return SymBool(self.t == tobool(o))

    def __hash__(self):
        return hash(bool(self))

    def __repr__(self):
        return f"SymBool({self.t})"


def tobool(v):
    if isinstance(v, SymBool):
        return v.t
    if isinstance(v, SymInt):
        return v.t != 0
    return z3.BoolVal(bool(v))


def mkbool(t):
    t = z3.simplify(t)
    if z3.is_true(t):
        return True
    if z3.is_false(t):
        return False
    return SymBool(t)


class SymInt:
    """Signed BV term of width w with conservative interval [lo, hi]; models an unbounded Python int exactly
    because every operation widens so that no wrap can occur."""

    __slots__ = ("t", "lo", "hi")

    def __init__(self, t, lo, hi):
        self.t, self.lo, self.hi = t, lo, hi

    # --- construction
    @staticmethod
    def lift(v):
        if isinstance(v, SymInt):
            return v
        if isinstance(v, SymBool):
            return SymInt(z3.If(v.t, z3.BitVecVal(1, 2), z3.BitVecVal(0, 2)), 0, 1)
        if isinstance(v, bool):
            v = int(v)
        if isinstance(v, int):
            v = int.__add__(v, 0)  # plain int (int subclasses such as enum members may print differently)
            return SymInt(z3.BitVecVal(v, fit(v, v)), v, v)
        raise TypeError(f"cannot lift {type(v)}")

    @staticmethod
    def mk(t, lo, hi):
        """normalise: constant-fold, narrow"""
        if lo == hi:
            return lo
        t = z3.simplify(resize(t, fit(lo, hi)))
        if z3.is_bv_value(t):
            return t.as_signed_long()
        return SymInt(t, lo, hi)

    @property
    def w(self):
        return self.t.size()

    @property
    def value(self):
        """IntEnum / IntFlag members with a symbolic value are represented by the SymInt itself"""
        return self

    def _bin(self, o, f, lo, hi):
        a, b = self, SymInt.lift(o)
        W = max(fit(lo, hi), a.w, b.w)
        return SymInt.mk(f(resize(a.t, W), resize(b.t, W)), lo, hi)

    # --- arithmetic
    def __add__(self, o):
        if not isinstance(o, (int, SymInt, SymBool)):
            return NotImplemented
        b = SymInt.lift(o)
        return self._bin(b, lambda x, y: x + y, self.lo + b.lo, self.hi + b.hi)

    __radd__ = __add__

    def __neg__(self):
        W = fit(-self.hi, -self.lo)
        W = max(W, self.w)
        return SymInt.mk(-resize(self.t, W), -self.hi, -self.lo)

    def __pos__(self):
        return self

    def __sub__(self, o):
        if not isinstance(o, (int, SymInt, SymBool)):
            return NotImplemented
        b = SymInt.lift(o)
        return self._bin(b, lambda x, y: x - y, self.lo - b.hi, self.hi - b.lo)

    def __rsub__(self, o):
        return SymInt.lift(o) - self

    def __mul__(self, o):
        if not isinstance(o, (int, SymInt, SymBool)):
            return NotImplemented
        b = SymInt.lift(o)
        c = [self.lo * b.lo, self.lo * b.hi, self.hi * b.lo, self.hi * b.hi]
        return self._bin(b, lambda x, y: x * y, min(c), max(c))

    __rmul__ = __mul__

    def _divisor(self, o):
        if isinstance(o, SymInt):
            o = _eng().concretize(o)
        if not isinstance(o, int):
            raise TypeError
        if o == 0:
            raise ZeroDivisionError
        return o

    def __floordiv__(self, o):
        c = self._divisor(o)
        if c < 0:
            return (-self) // (-c)
        W = max(self.w, fit(c, c)) + 1
        a, cc = resize(self.t, W), z3.BitVecVal(c, W)
        q, r = a / cc, z3.SRem(a, cc)
        # z3 '/' on BitVecRef is signed division (truncating)
        fl = z3.If(r < 0, q - 1, q)
        return SymInt.mk(fl, self.lo // c, self.hi // c)

    def __mod__(self, o):
        c = self._divisor(o)
        if c < 0:
            raise NotImplementedError("negative modulus")
        W = max(self.w, fit(c, c)) + 1
        a, cc = resize(self.t, W), z3.BitVecVal(c, W)
        r = z3.SRem(a, cc)
        m = z3.If(r < 0, r + cc, r)
        if self.lo >= 0 and self.hi < c:
            return self
        return SymInt.mk(m, 0, c - 1)

    def __rfloordiv__(self, o):
        raise NotImplementedError("symbolic divisor")

    def __rmod__(self, o):
        raise NotImplementedError("symbolic modulus")

    def __lshift__(self, o):
        if isinstance(o, SymInt):
            return _sym_shl(self, o)
        k = o
        if k < 0:
            raise ValueError("negative shift count")
        return self * (1 << k)

    def __rlshift__(self, o):
        return _sym_shl(SymInt.lift(o), self)

    def __rshift__(self, o):
        k = o if isinstance(o, int) else _eng().concretize(o)
        if k < 0:
            raise ValueError("negative shift count")
        return SymInt.mk(self.t >> min(k, self.w - 1) if k < self.w else self.t >> (self.w - 1), self.lo >> k, self.hi >> k)

    def __rrshift__(self, o):
        k = _eng().concretize(self)
        return o >> k

    def _bitop(self, o, f, kind):
        if not isinstance(o, (int, SymInt, SymBool)):
            return NotImplemented
        b = SymInt.lift(o)
        W = max(self.w, b.w)
        if self.lo >= 0 and b.lo >= 0:
            if kind == "and":
                lo, hi = 0, min(self.hi, b.hi)
            else:
                lo, hi = 0, (1 << max(self.hi.bit_length(), b.hi.bit_length())) - 1
        elif kind == "and" and (self.lo >= 0 or b.lo >= 0):
            lo, hi = 0, self.hi if self.lo >= 0 else b.hi
        else:
            lo, hi = -(1 << (W - 1)), (1 << (W - 1)) - 1
        return SymInt.mk(f(resize(self.t, W), resize(b.t, W)), lo, hi)

    def __and__(self, o):
        return self._bitop(o, lambda x, y: x & y, "and")

    __rand__ = __and__

    def __or__(self, o):
        return self._bitop(o, lambda x, y: x | y, "or")

    __ror__ = __or__

    def __xor__(self, o):
        return self._bitop(o, lambda x, y: x ^ y, "xor")

    __rxor__ = __xor__

    def __invert__(self):
        return -self - 1

    def __abs__(self):
        if self.lo >= 0:
            return self
        if self.hi <= 0:
            return -self
        n = -self
        return n._bin(self, lambda x, y: z3.If(y < 0, x, y), 0, max(-self.lo, self.hi))

    # --- comparisons
    def _cmp(self, o, f, decided):
        if not isinstance(o, (int, SymInt, SymBool)):
            return NotImplemented
        b = SymInt.lift(o)
        d = decided(self, b)
        if d is not None:
            return d
        W = max(self.w, b.w)
        return mkbool(f(resize(self.t, W), resize(b.t, W)))

    def __eq__(self, o):
        if not isinstance(o, (int, SymInt, SymBool)):
            return False
        return self._cmp(o, lambda x, y: x == y, lambda a, b: False if (a.hi < b.lo or b.hi < a.lo) else None)

    def __ne__(self, o):
        if not isinstance(o, (int, SymInt, SymBool)):
            return True
        return self._cmp(o, lambda x, y: x != y, lambda a, b: True if (a.hi < b.lo or b.hi < a.lo) else None)

    def __lt__(self, o):
        return self._cmp(o, lambda x, y: x < y, lambda a, b: True if a.hi < b.lo else (False if a.lo >= b.hi else None))

    def __le__(self, o):
        return self._cmp(o, lambda x, y: x <= y, lambda a, b: True if a.hi <= b.lo else (False if a.lo > b.hi else None))

    def __gt__(self, o):
        return self._cmp(o, lambda x, y: x > y, lambda a, b: True if a.lo > b.hi else (False if a.hi <= b.lo else None))

    def __ge__(self, o):
        return self._cmp(o, lambda x, y: x >= y, lambda a, b: True if a.lo >= b.hi else (False if a.hi < b.lo else None))

    # --- conversions (force a fork over concrete values)
    def __bool__(self):
        return bool(self != 0)

    def _wide(self):
        """more than 2^16 candidate values: by interval *and* by the number of input bits the term depends on"""
        if self.hi - self.lo <= 1 << 16:
            return False
        bits, seen, stack = 0, set(), [self.t]
        while stack and bits <= 16:
            x = stack.pop()
            i = x.get_id()
            if i in seen:
                continue
            seen.add(i)
            if z3.is_const(x):
                if x.decl().kind() == z3.Z3_OP_UNINTERPRETED:
                    bits += x.size() if z3.is_bv(x) else 1
            else:
                stack.extend(x.children())
        return bits > 16

    def __index__(self):
        # reached only when *native* code asks for a machine integer: enumerating a wide range is never what a check wants
        if self._wide():
            from .engine import Unsupported

            raise Unsupported("native code needs the concrete value of a symbolic int with more than 2^16 possible values (no model for this call)")
        return _eng().concretize(self)

    __int__ = __index__

    def __hash__(self):
        if self._wide():
            from .engine import Unsupported

            raise Unsupported("a symbolic int with more than 2^16 possible values is used as a hash key")
        return hash(_eng().concretize(self))

    def __repr__(self):
        return f"SymInt<{self.w}>[{self.lo},{self.hi}]({self.t})" if self.w <= 16 else f"SymInt<{self.w}>[{self.lo},{self.hi}]"

    def __format__(self, spec):
        return "<sym>"

    def __divmod__(self, o):
        return (self // o, self % o)

    def __rdivmod__(self, o):
        return (o // self, o % self)

    def bit_length(self):
        """symbolic: an If-chain over the magnitude (no fork, no enumeration)"""
        v = abs(self)
        if isinstance(v, int):
            return v.bit_length()
        hi = v.hi.bit_length()
        W = max(v.w, fit(0, hi))
        t = resize(v.t, W)
        res = z3.BitVecVal(0, W)
        for k in range(1, hi + 1):
            res = z3.If(t >= z3.BitVecVal(1 << (k - 1), W), z3.BitVecVal(k, W), res)
        return SymInt.mk(res, v.lo.bit_length(), hi)

    def to_bytes(self, length=1, byteorder="big", *, signed=False):
        length = alloc_guard(length)
        if signed:
            ok = (self >= -(1 << (8 * length - 1))) & (self < (1 << (8 * length - 1))) if length else (self == 0)
        else:
            if bool(self < 0):
                raise OverflowError("can't convert negative int to unsigned")
            ok = self < (1 << (8 * length))
        if not (ok if isinstance(ok, bool) else bool(ok)):
            raise OverflowError("int too big to convert")
        # octets above the value's own width are the sign extension: constants when the sign is known
        own = min(length, (self.w + 7) // 8 + 1)
        W = max(self.w, 8 * own + 1)
        t = resize(self.t, W)
        items = [SymInt.mk(z3.ZeroExt(1, z3.Extract(8 * i + 7, 8 * i, t)), 0, 255) for i in range(own)]
        if length > own:
            if self.lo >= 0:
                fill = 0
            elif self.hi < 0:
                fill = 255
            else:
                fill = SymInt.mk(z3.If(t < 0, z3.BitVecVal(255, 9), z3.BitVecVal(0, 9)), 0, 255)
            items += [fill] * (length - own)
        if byteorder == "big":
            items.reverse()
        return SymBytes(items).norm()


ALLOC_CAP = 1 << 20  # native mode: a peak allocation above 1 MiB counts as a work-budget overrun
SYM_ALLOC_CAP = 1 << 16  # symbolic mode: a single allocation above 64 KiB (one RPC fragment) whose size comes from the input is an overrun


def alloc_guard(n):
    """concretise an allocation size; sizes above SYM_ALLOC_CAP are a budget overrun (work not proportional to the input).
    The witness is steered into (ALLOC_CAP, 2*ALLOC_CAP] when possible so that the native replay can observe it cheaply."""
    from .engine import BudgetExceeded

    e = _eng()
    if isinstance(n, SymInt):
        if n.hi > SYM_ALLOC_CAP and bool(n > SYM_ALLOC_CAP):
            c = (n > ALLOC_CAP) & (n <= 2 * ALLOC_CAP)
            e.prefer(c.t if isinstance(c, SymBool) else None)
            raise BudgetExceeded(f"allocation of more than {SYM_ALLOC_CAP} bytes requested (size taken from the input)")
        n = e.concretize(n)
    if n > SYM_ALLOC_CAP:
        raise BudgetExceeded(f"allocation of {n} bytes requested")
    return n


def _sym_shl(a, k):
    if bool(k < 0):
        raise ValueError("negative shift count")
    if k.hi > 1 << 14:
        k = _eng().concretize(k)
        return a << k
    c = [a.lo << max(k.lo, 0), a.lo << k.hi, a.hi << max(k.lo, 0), a.hi << k.hi]
    lo, hi = min(c), max(c)
    W = max(fit(lo, hi), a.w, k.w)
    return SymInt.mk(resize(a.t, W) << resize(k.t, W), lo, hi)


_STRUCT_CODES = {"b": (1, True), "B": (1, False), "h": (2, True), "H": (2, False), "i": (4, True), "I": (4, False), "l": (4, True), "L": (4, False),
                 "q": (8, True), "Q": (8, False)}


def _parse_struct_fmt(fmt):
    """-> (byteorder, [field, ...]) for standard-size formats; field = ("int", size, signed) | ("bytes", n) | ("pad", n) | ("bool",); else None"""
    import re as _re

    fmt = fmt.replace(" ", "")
    if fmt and fmt[0] in "<>!=":
        order, body = ("little" if fmt[0] == "<" else "big"), fmt[1:]
        if fmt[0] == "=":
            import sys as _sys

            order = _sys.byteorder
    elif fmt and all(ch in "bBsxc?" or ch.isdigit() for ch in fmt):
        order, body = "little", fmt  # single-byte items only: native alignment does not matter
    else:
        return None
    toks = _re.findall(r"(\d*)([a-zA-Z?])", body)
    if "".join(c + k for c, k in toks) != body:
        return None
    fields = []
    for cnt, code in toks:
        n = int(cnt) if cnt else 1
        if code in _STRUCT_CODES:
            fields += [("int",) + _STRUCT_CODES[code]] * n
        elif code == "s":
            fields.append(("bytes", n))
        elif code == "x":
            fields.append(("pad", n))
        elif code == "?":
            fields += [("bool",)] * n
        elif code == "c":
            fields += [("bytes", 1)] * n
        else:
            return None
    return order, fields


def struct_pack(fmt, *vals):
    import struct

    parsed = _parse_struct_fmt(fmt)
    if parsed is None:
        from .engine import Unsupported

        raise Unsupported(f"struct.pack({fmt!r}) with symbolic arguments")
    order, fields = parsed
    nvals = sum(1 for f in fields if f[0] != "pad")
    if nvals != len(vals):
        raise struct.error(f"pack expected {nvals} items for packing (got {len(vals)})")
    out, vi = [], 0
    for f in fields:
        if f[0] == "pad":
            out.extend([0] * f[1])
            continue
        v = vals[vi]
        vi += 1
        if f[0] == "bytes":
            if not is_byteslike(v):
                raise struct.error("argument for 's' must be a bytes object")
            items = seq_items(v)[: f[1]]
            out.extend(items + [0] * (f[1] - len(items)))
        elif f[0] == "bool":
            out.append(SymInt.lift(v != 0) if isinstance(v, (SymInt, SymBool)) else int(bool(v)))
        else:
            _, size, signed = f
            if not isinstance(v, (int, SymInt)):
                raise struct.error("required argument is not an integer")
            lo, hi = (-(1 << (8 * size - 1)), (1 << (8 * size - 1)) - 1) if signed else (0, (1 << (8 * size)) - 1)
            ok = (v >= lo) & (v <= hi) if isinstance(v, SymInt) else (lo <= v <= hi)
            if not (ok if isinstance(ok, bool) else bool(ok)):
                raise struct.error("argument out of range")
            out.extend(seq_items(v.to_bytes(size, order, signed=signed)))
    return SymBytes(out).norm()


def struct_unpack(fmt, buf):
    import struct

    parsed = _parse_struct_fmt(fmt)
    if parsed is None:
        from .engine import Unsupported

        raise Unsupported(f"struct.unpack({fmt!r}) on a symbolic buffer")
    order, fields = parsed
    items = seq_items(buf)
    total = sum((f[1] if f[0] != "bool" else 1) for f in fields)
    if len(items) != total:
        raise struct.error(f"unpack requires a buffer of {total} bytes")
    out, p = [], 0
    for f in fields:
        if f[0] == "pad":
            p += f[1]
        elif f[0] == "bytes":
            out.append(SymBytes(items[p : p + f[1]]).norm())
            p += f[1]
        elif f[0] == "bool":
            out.append(items[p] != 0)
            p += 1
        else:
            _, size, signed = f
            out.append(int_from_bytes(SymBytes(items[p : p + size]), order, signed=signed))
            p += size
    return tuple(out)


def int_from_bytes(data, byteorder="big", *, signed=False):
    items = list(seq_items(data))
    if all(isinstance(x, int) for x in items):
        return int.from_bytes(bytes(items), byteorder, signed=signed)
    if byteorder == "big":
        items = items[::-1]
    n = len(items)
    parts = []
    for x in reversed(items):
        b = SymInt.lift(x)
        parts.append(z3.Extract(7, 0, resize(b.t, 9)))
    t = z3.Concat(*parts) if len(parts) > 1 else parts[0]
    if signed:
        return SymInt.mk(t, -(1 << (8 * n - 1)), (1 << (8 * n - 1)) - 1)
    return SymInt.mk(z3.ZeroExt(1, t), 0, (1 << (8 * n)) - 1)


# ---------------------------------------------------------------- byte sequences (concrete length)


def seq_items(x):
    if isinstance(x, SymSeq):
        return x.items()
    if isinstance(x, SymBlob):
        if all(s[0] == "lit" for s in x.segs):
            return [i for s in x.segs for i in s[1]]
        from .engine import Unsupported

        raise Unsupported("octets of an opaque byte string of symbolic length requested")
    if isinstance(x, (bytes, bytearray, memoryview)):
        return list(bytes(x))
    if isinstance(x, (list, tuple)):
        return list(x)
    raise TypeError(f"not a byte sequence: {type(x)}")


def is_byteslike(x):
    return isinstance(x, (bytes, bytearray, memoryview, SymSeq, SymBlob))


class SymSeq:
    """Base: byte sequence of concrete length whose items are int | SymInt(0..255)."""

    kind = "bytes"

    def items(self):
        raise NotImplementedError

    def __len__(self):
        return len(self.items())

    def startswith(self, prefix):
        if isinstance(prefix, tuple):
            return any_of_syms([self.startswith(p) for p in prefix])
        n = len(prefix)
        return n <= len(self) and (n == 0 or SymBytes(self.items()[:n]) == prefix)

    def endswith(self, suffix):
        if isinstance(suffix, tuple):
            return any_of_syms([self.endswith(p) for p in suffix])
        n = len(suffix)
        return n <= len(self) and (n == 0 or SymBytes(self.items()[len(self) - n :]) == suffix)

    def _strip(self, chars, left, right):
        chars = bytes(range(9, 14)) + b" " if chars is None else bytes(chars)
        items = list(self.items())

        def member(x):
            if isinstance(x, int):
                return x in chars
            return _t(any_of_syms([x == ch for ch in chars]))

        if right:
            while items and member(items[-1]):
                items.pop()
        if left:
            while items and member(items[0]):
                items.pop(0)
        return SymBytes(items).norm() if isinstance(self, SymBytes) else type(self)(items)

    def rstrip(self, chars=None):
        return self._strip(chars, False, True)

    def lstrip(self, chars=None):
        return self._strip(chars, True, False)

    def strip(self, chars=None):
        return self._strip(chars, True, True)

    def zfill(self, width):
        """bytes.zfill: left-fill with ASCII '0' (0x30), after a leading sign octet"""
        items = list(self.items())
        if not isinstance(width, int):
            width = _eng().concretize(width)
        pad = width - len(items)
        if pad <= 0:
            return self
        if items and _t(any_of_syms([items[0] == 0x2B, items[0] == 0x2D])):
            out = [items[0]] + [0x30] * pad + items[1:]
        else:
            out = [0x30] * pad + items
        return SymBytes(out).norm() if isinstance(self, SymBytes) else type(self)(out)

    def removeprefix(self, prefix):
        n = len(prefix)
        if n and _t(self.startswith(prefix)):
            return type(self)(self.items()[n:]) if not isinstance(self, SymBytes) else SymBytes(self.items()[n:]).norm()
        return self

    def removesuffix(self, suffix):
        n = len(suffix)
        if n and _t(self.endswith(suffix)):
            return type(self)(self.items()[: len(self) - n]) if not isinstance(self, SymBytes) else SymBytes(self.items()[: len(self) - n]).norm()
        return self

    def __iter__(self):
        return iter(self.items())

    def __bool__(self):
        return len(self) > 0

    def _slice(self, key):
        n = len(self)
        e = _eng()

        def cv(v, default):
            if v is None:
                return default
            if isinstance(v, SymInt):
                return e.concretize_clamped(v, n)
            return v

        if key.step is not None and key.step != 1:
            return slice(cv(key.start, None), cv(key.stop, None), key.step)
        return slice(cv(key.start, 0), cv(key.stop, n), None)

    def _index(self, key):
        n = len(self)
        if isinstance(key, SymInt):
            if bool(key < -n) or bool(key >= n):
                raise IndexError("index out of range")
            key = _eng().concretize(key)
        if not -n <= key < n:
            raise IndexError("index out of range")
        return key

    def __eq__(self, o):
        if not is_byteslike(o):
            return False
        if isinstance(o, SymBlob):
            return o.__eq__(self)
        a, b = self.items(), seq_items(o)
        if len(a) != len(b):
            return False
        for x, y in zip(a, b):
            if isinstance(x, int) and isinstance(y, int) and x != y:
                return False
        conj = []
        for x, y in zip(a, b):
            if x is y:
                continue
            r = x == y
            if r is False:
                return False
            if r is not True:
                conj.append(r.t)
        if not conj:
            return True
        return mkbool(z3.And(*conj))

    def __ne__(self, o):
        r = self.__eq__(o)
        return (not r) if isinstance(r, bool) else SymBool(z3.Not(r.t))

    def __hash__(self):
        if sum(1 for x in self.items() if isinstance(x, SymInt)) > 2:
            from .engine import Unsupported

            raise Unsupported("a byte string with more than 2 symbolic octets is used as a hash key by native code")
        return hash(bytes(_eng().concretize(x) if isinstance(x, SymInt) else x for x in self.items()))

    def tobytes(self):
        return SymBytes(list(self.items())).norm()

    def concrete(self):
        return all(isinstance(x, int) for x in self.items())

    def hex(self):
        return bytes(self.__index_items()).hex()

    def __index_items(self):
        return [(_eng().concretize(x) if isinstance(x, SymInt) else x) for x in self.items()]

    def realize(self):
        return bytes(self.__index_items())

    def __repr__(self):
        return f"{type(self).__name__}({['?' if isinstance(x, SymInt) else x for x in self.items()]})"


class SymBytes(SymSeq):
    kind = "bytes"

    def __init__(self, items):
        self._items = list(items)

    def items(self):
        return self._items

    def norm(self):
        if all(isinstance(x, int) for x in self._items):
            return bytes(self._items)
        return self

    def __getitem__(self, key):
        if isinstance(key, slice):
            return SymBytes(self._items[self._slice(key)]).norm()
        return self._items[self._index(key)]

    def __add__(self, o):
        if not is_byteslike(o) or isinstance(o, SymBlob):
            return NotImplemented
        return SymBytes(self._items + seq_items(o)).norm()

    def __radd__(self, o):
        if not is_byteslike(o) or isinstance(o, SymBlob):
            return NotImplemented
        return SymBytes(seq_items(o) + self._items).norm()

    def __mul__(self, k):
        k = alloc_guard(k)
        return SymBytes(self._items * k).norm()

    def ljust(self, width, fill=b" "):
        pad = width - len(self._items)
        if not isinstance(pad, int):
            pad = 0 if _t(pad <= 0) else alloc_guard(pad)
        return SymBytes(self._items + list(bytes(fill)) * max(pad, 0)).norm()

    def rjust(self, width, fill=b" "):
        pad = width - len(self._items)
        if not isinstance(pad, int):
            pad = 0 if _t(pad <= 0) else alloc_guard(pad)
        return SymBytes(list(bytes(fill)) * max(pad, 0) + self._items).norm()

    def decode(self, enc="utf-8", errors="strict"):
        e = enc.lower().replace("-", "").replace("_", "")
        if errors == "strict" and e == "utf8":
            return utf8_decode(self._items)
        if errors == "strict" and e == "utf16le":
            return utf16le_decode(self._items)
        if errors == "strict" and e == "utf8sig":
            # a leading EF BB BF is dropped
            it = self._items
            if len(it) >= 3 and _t(SymBytes(it[:3]) == b"\xef\xbb\xbf"):
                return utf8_decode(it[3:])
            return utf8_decode(it)
        if errors == "strict" and e == "utf16":
            # byte-order mark decides; without one CPython uses the native order (little endian on the platforms this runs on)
            it = self._items
            if len(it) >= 2 and _t(SymBytes(it[:2]) == b"\xff\xfe"):
                return utf16le_decode(it[2:])
            if len(it) >= 2 and _t(SymBytes(it[:2]) == b"\xfe\xff"):
                swapped = []
                for i in range(2, len(it) - 1, 2):
                    swapped += [it[i + 1], it[i]]
                if (len(it) - 2) % 2:
                    swapped.append(it[-1])
                return utf16le_decode(swapped)
            return utf16le_decode(it)
        if self.concrete():
            return bytes(self.realize()).decode(enc, errors)
        from .engine import Unsupported

        raise Unsupported(f"bytes.decode({enc!r}, {errors!r}) of symbolic octets is not modelled")

    def replace(self, a, b, count=-1):
        a, b = bytes(a), bytes(b)
        if len(a) == 1 and count == -1:
            # single-byte pattern: one fork per symbolic octet (is it the pattern?) instead of one per value
            out = []
            for x in self._items:
                if (x == a[0]) if isinstance(x, int) else bool(x == a[0]):
                    out.extend(b)
                else:
                    out.append(x)
            return SymBytes(out).norm()
        return self.realize().replace(a, b)


class SymByteArray(SymSeq):
    kind = "bytearray"

    def __init__(self, items=()):
        self._items = list(items)

    def items(self):
        return self._items

    def __getitem__(self, key):
        if isinstance(key, slice):
            return SymByteArray(self._items[self._slice(key)])
        return self._items[self._index(key)]

    def __setitem__(self, key, v):
        if isinstance(key, slice):
            self._items[self._slice(key)] = seq_items(v)
        else:
            k = self._index(key)
            if isinstance(v, SymInt):
                if bool(v < 0) or bool(v > 255):
                    raise ValueError("byte must be in range(0, 256)")
            elif not 0 <= v <= 255:
                raise ValueError("byte must be in range(0, 256)")
            self._items[k] = v

    def insert(self, index, v):
        self._items.insert(index if isinstance(index, int) else _eng().concretize(index), v)

    def pop(self, index=-1):
        return self._items.pop(index if isinstance(index, int) else _eng().concretize(index))

    def clear(self):
        del self._items[:]

    def reverse(self):
        self._items.reverse()

    def append(self, v):
        if isinstance(v, SymInt):
            if bool(v < 0) or bool(v > 255):
                raise ValueError("byte must be in range(0, 256)")
        elif not 0 <= v <= 255:
            raise ValueError("byte must be in range(0, 256)")
        self._items.append(v)

    def _upgrade(self, o):
        """become a bytearray of symbolic length (same object identity: writers keep references to it)"""
        items = self._items
        self.__class__ = SymBlob
        self.__dict__.clear()
        self.segs = SymBlob([("lit", items)] + SymBlob.of(o).segs).segs
        self.kind = "bytearray"

    def extend(self, o):
        if isinstance(o, SymBlob) and not all(s[0] == "lit" for s in o.segs):
            return self._upgrade(o)
        self._items.extend(seq_items(o))

    def reverse(self):
        self._items.reverse()

    def __iadd__(self, o):
        if isinstance(o, SymBlob) and not all(s[0] == "lit" for s in o.segs):
            self._upgrade(o)
            return self
        self._items.extend(seq_items(o))
        return self

    def __add__(self, o):
        if isinstance(o, SymBlob):
            return NotImplemented
        return SymByteArray(self._items + seq_items(o))

    def __radd__(self, o):
        return SymBytes(seq_items(o) + self._items).norm()


class SymView(SymSeq):
    """memoryview over a base sequence (write-through for SymByteArray)."""

    kind = "memoryview"

    def __init__(self, base, start=0, stop=None):
        if isinstance(base, SymView):
            start, stop = base.start + start, (base.start + stop if stop is not None else base.stop)
            base = base.base
        elif isinstance(base, (bytes,)):
            base = SymBytes(list(base))
        elif isinstance(base, bytearray):
            base = SymByteArray(list(base))
        elif isinstance(base, memoryview):
            base = SymBytes(list(bytes(base)))
        self.base, self.start = base, start
        self.stop = len(base) if stop is None else stop

    def items(self):
        return self.base.items()[self.start : self.stop]

    def __len__(self):
        return self.stop - self.start

    def __getitem__(self, key):
        if isinstance(key, slice):
            s = self._slice(key)
            if s.step is not None:
                return SymBytes(self.items()[s]).norm()
            a, b, _ = s.indices(len(self))
            b = max(a, b)
            return SymView(self.base, self.start + a, self.start + b)
        k = self._index(key)
        if k < 0:
            k += len(self)
        return self.base.items()[self.start + k]

    def __setitem__(self, key, v):
        if not isinstance(self.base, SymByteArray):
            raise TypeError("cannot modify read-only memory")
        if isinstance(key, slice):
            a, b, _ = self._slice(key).indices(len(self))
            b = max(a, b)
            vals = seq_items(v)
            if len(vals) != b - a:
                raise ValueError("memoryview assignment: lvalue and rvalue have different structures")
            self.base._items[self.start + a : self.start + b] = vals
        else:
            k = self._index(key)
            if k < 0:
                k += len(self)
            self.base[self.start + k] = v


# ---------------------------------------------------------------- structured strings


class SymStr:
    """A *structured* string: concatenation of literal text, single symbolic ASCII characters ("chr", SymInt 0..127)
    and canonical decimal renderings of non-negative symbolic ints ("dec", SymInt).  Supports exactly what the
    repository does to such strings (split on a literal separator, int(), join, +, encode of ASCII, ==)."""

    __slots__ = ("parts",)

    def __init__(self, parts):
        out = []
        for p in parts:
            if isinstance(p, SymStr):
                ps = p.parts
            else:
                ps = [p]
            for q in ps:
                if isinstance(q, str):
                    if not q:
                        continue
                    if out and isinstance(out[-1], str):
                        out[-1] += q
                    else:
                        out.append(q)
                else:
                    kind, v = q
                    if isinstance(v, int):
                        lit = str(v) if kind == "dec" else chr(v)
                        if out and isinstance(out[-1], str):
                            out[-1] += lit
                        else:
                            out.append(lit)
                    else:
                        out.append((kind, v))
        self.parts = out

    WHITESPACE = [cp for cp in range(0x3100) if chr(cp).isspace()]

    def _strip(self, chars, left, right):
        if chars is not None:
            from .engine import Unsupported

            raise Unsupported("str.strip(chars) on a structured string")
        parts = list(self.parts)

        def side(idx, strip_fn):
            while parts:
                p = parts[idx]
                if isinstance(p, str):
                    q = strip_fn(p)
                    if q:
                        parts[idx] = q
                        return
                    parts.pop(idx)
                elif p[0] == "dec":
                    return  # digits and '-' are not whitespace
                else:
                    if _t(any_of_syms([p[1] == w for w in SymStr.WHITESPACE])):
                        parts.pop(idx)
                    else:
                        return

        if left:
            side(0, str.lstrip)
        if right:
            side(-1, str.rstrip)
        return SymStr(parts).norm()

    def strip(self, chars=None):
        return self._strip(chars, True, True)

    def lstrip(self, chars=None):
        return self._strip(chars, True, False)

    def rstrip(self, chars=None):
        return self._strip(chars, False, True)

    # -- constructors
    @staticmethod
    def dec(v):
        if isinstance(v, int):
            return str(v)
        if v.lo < 0:
            if bool(v < 0):
                return SymStr(["-", ("dec", -v)]).norm()
            v = SymInt.mk(v.t, 0, v.hi)
            if isinstance(v, int):
                return str(v)
        return SymStr([("dec", v)])

    @staticmethod
    def join(sep, items):
        parts = []
        for i, x in enumerate(items):
            if i:
                parts.append(sep)
            parts.append(x)
        return SymStr(parts).norm()

    @staticmethod
    def from_ascii(data):
        parts = []
        for x in seq_items(data):
            if isinstance(x, int):
                if x >= 128:
                    raise ValueError("not ascii")
                parts.append(chr(x))
            else:
                parts.append(("chr", x))
        return SymStr(parts).norm()

    def norm(self):
        if all(isinstance(p, str) for p in self.parts):
            return "".join(self.parts)
        return self

    # -- str API subset
    def __add__(self, o):
        if not isinstance(o, (str, SymStr)):
            return NotImplemented
        return SymStr([self, o]).norm()

    def __radd__(self, o):
        if not isinstance(o, (str, SymStr)):
            return NotImplemented
        return SymStr([o, self]).norm()

    def split(self, sep=None, maxsplit=-1):
        if sep is None or maxsplit != -1 or not isinstance(sep, str) or any(ch.isdigit() for ch in sep):
            from .engine import Unsupported

            raise Unsupported("SymStr.split with this separator")
        pieces, cur = [], []
        for p in self.parts:
            if isinstance(p, str):
                segs = p.split(sep)
                cur.append(segs[0])
                for s in segs[1:]:
                    pieces.append(SymStr(cur).norm())
                    cur = [s]
            else:
                if p[0] == "chr":
                    # a symbolic character may or may not be the separator
                    if len(sep) == 1 and bool(p[1] == ord(sep)):
                        pieces.append(SymStr(cur).norm())
                        cur = []
                        continue
                cur.append(p)
        pieces.append(SymStr(cur).norm())
        return pieces

    def encode(self, encoding="utf-8", errors="strict"):
        items = []
        codec = {"utf8": "utf-8", "utf16le": "utf-16-le"}.get(encoding.lower().replace("-", "").replace("_", ""))
        for p in self.parts:
            if isinstance(p, str):
                items.extend(p.encode(encoding, errors))
            elif p[0] == "chr" and codec:
                items.extend(_enc_cp(p[1], codec))
            else:
                from .engine import Unsupported

                raise Unsupported("encode of a symbolic decimal rendering")
        return SymBytes(items).norm()

    def to_int(self):
        if len(self.parts) == 1 and not isinstance(self.parts[0], str) and self.parts[0][0] == "dec":
            return self.parts[0][1]
        if all(isinstance(p, str) or p[0] == "chr" for p in self.parts):
            # symbolic characters: fork over their values (int() accepts digits of many scripts, signs, blanks, underscores: CPython decides)
            return int(self.realize())
        from .engine import Unsupported

        raise Unsupported(f"int() of structured string {self!r}")

    def _fields(self):
        """[field | separator ...]: separators are maximal runs of non-digit literal text (str), numeric fields are ("lit", digits) or
        ("dec", SymInt); None if a field mixes literal digits with a decimal rendering or contains a symbolic character"""
        out = []
        cur = None  # current numeric field
        for p in self.parts:
            if isinstance(p, str):
                for ch in p:
                    if ch.isdigit() and ch.isascii():
                        if cur is None:
                            cur = ("lit", ch)
                        elif cur[0] == "lit":
                            cur = ("lit", cur[1] + ch)
                        else:
                            return None
                    else:
                        if cur is not None:
                            out.append(cur)
                            cur = None
                        if out and isinstance(out[-1], str):
                            out[-1] += ch
                        else:
                            out.append(ch)
            elif p[0] == "dec":
                if cur is not None:
                    return None
                cur = ("dec", p[1])
            else:
                return None
        if cur is not None:
            out.append(cur)
        return out

    def _atoms(self):
        out = []
        for p in self.parts:
            if isinstance(p, str):
                out.extend(p)
            else:
                out.append(p)
        return out

    def __eq__(self, o):
        if isinstance(o, str):
            o = SymStr([o])
        if not isinstance(o, SymStr):
            return False
        a, b = self.parts, o.parts
        has_dec = any(not isinstance(p, str) and p[0] == "dec" for p in a + b)
        conj = []
        if not has_dec:
            x, y = self._atoms(), o._atoms()
            if len(x) != len(y):
                return False
            for p, q in zip(x, y):
                r = (ord(p) if isinstance(p, str) else p[1]) == (ord(q) if isinstance(q, str) else q[1])
                if r is False:
                    return False
                if r is not True:
                    conj.append(r.t)
        else:
            from .engine import Unsupported

            fa, fb = self._fields(), o._fields()
            if fa is None or fb is None:
                raise Unsupported(f"comparison of differently structured strings {self!r} / {o!r}")
            if len(fa) != len(fb):
                return False
            for p, q in zip(fa, fb):
                if isinstance(p, str) or isinstance(q, str):
                    # separators (non-digit text) must agree exactly; a numeric field never equals a separator
                    if p != q:
                        return False
                    continue
                (kp, vp), (kq, vq) = p, q
                if kp == "lit" and kq == "lit":
                    if vp != vq:
                        return False
                    continue
                if kp == "lit":
                    kp, vp, kq, vq = kq, vq, kp, vp
                if kq == "lit":
                    # decimal rendering vs literal digits: equal iff the literal is the canonical rendering of the same value
                    if vq == "" or (len(vq) > 1 and vq[0] == "0"):
                        return False
                    r = vp == int(vq)
                else:
                    r = vp == vq
                if r is False:
                    return False
                if r is not True:
                    conj.append(r.t)
        if not conj:
            return True
        return mkbool(z3.And(*conj))

    def __ne__(self, o):
        r = self.__eq__(o)
        return (not r) if isinstance(r, bool) else SymBool(z3.Not(r.t))

    def __hash__(self):
        return hash(self.realize())

    def realize(self):
        e = _eng()
        out = []
        for p in self.parts:
            if not isinstance(p, str) and not isinstance(p[1], int) and p[1]._wide():
                from .engine import Unsupported

                raise Unsupported("the concrete text of a structured string with a wide symbolic field is needed (no model for this use)")
            if isinstance(p, str):
                out.append(p)
            elif p[0] == "dec":
                out.append(str(e.concretize(p[1])))
            else:
                out.append(chr(e.concretize(p[1])))
        return "".join(out)

    def concretize(self, model):
        out = []
        for p in self.parts:
            if isinstance(p, str):
                out.append(p)
            else:
                v = model.eval(p[1].t, model_completion=True).as_signed_long()
                out.append(str(v) if p[0] == "dec" else chr(v))
        return "".join(out)

    def __str__(self):
        return "<symstr>"

    def __format__(self, spec):
        return "<symstr>"

    def __repr__(self):
        return "SymStr(" + "".join(p if isinstance(p, str) else ("{dec}" if p[0] == "dec" else "{chr}") for p in self.parts) + ")"


class AnyStr:
    """the universal string: stands for *every* str; only usable as the subject of a regular expression (see interp.RegexProbe)"""

    def __format__(self, spec):
        return "<any str>"

    def __getattr__(self, name):
        from .engine import Unsupported

        raise Unsupported(f"str.{name} on the universal string")


def split_ints(s, sep):
    """[int(x) for x in s.split(sep)] for str or SymStr"""
    if isinstance(s, str):
        return [int(x) for x in s.split(sep)]
    out = []
    for p in s.split(sep):
        out.append(int(p) if isinstance(p, str) else p.to_int())
    return out


# ---------------------------------------------------------------- IEEE-754 binary64 (only int / int and int(float))

FLOAT_MODEL = "exact"  # "exact": CPython's correctly rounded int/int; "cheap": float(a)/float(b) (candidate generator only)


class SymFloat:
    __slots__ = ("t", "lo", "hi")

    def __init__(self, t, lo, hi):
        self.t, self.lo, self.hi = t, lo, hi

    def to_int(self):
        """int(f): truncation toward zero"""
        lo, hi = int(self.lo) - 1, int(self.hi) + 1
        w = fit(lo, hi) + 1
        return SymInt.mk(z3.fpToSBV(z3.RTZ(), self.t, z3.BitVecSort(w)), lo, hi)

    def __repr__(self):
        return "SymFloat"

    def __format__(self, spec):
        return "<symfloat>"


def sym_truediv(a, b):
    """CPython's ``int / int``: the exact quotient correctly rounded (round-half-even) to binary64."""
    from .engine import Unsupported

    A, B = SymInt.lift(a), SymInt.lift(b)
    if B.lo <= 0 <= B.hi:
        if B.lo == B.hi:
            raise ZeroDivisionError("division by zero")
        raise Unsupported("symbolic divisor that may be zero")
    F64 = z3.Float64()
    rne = z3.RNE()
    amax, bmax = max(abs(A.lo), abs(A.hi)), max(abs(B.lo), abs(B.hi))
    qs = [A.lo / B.lo, A.lo / B.hi, A.hi / B.lo, A.hi / B.hi]
    lo, hi = min(qs), max(qs)
    if amax < (1 << 53) and bmax < (1 << 53):
        # both conversions are exact, IEEE division is correctly rounded: exactly CPython's result
        q = z3.fpDiv(rne, z3.fpSignedToFP(rne, A.t, F64), z3.fpSignedToFP(rne, B.t, F64))
    elif FLOAT_MODEL == "cheap":
        q = z3.fpDiv(rne, z3.fpSignedToFP(rne, A.t, F64), z3.fpSignedToFP(rne, B.t, F64))
    else:
        if amax >= (1 << 64) or bmax >= (1 << 53):
            raise Unsupported("true division outside the modelled operand range (|a| < 2^64, |b| < 2^53)")
        # quotient in a format wide enough to hold both operands exactly (130-bit significand), then re-rounded to binary64.
        # Innocuous double rounding: for |a| < 2^64, 0 < |b| < 2^53 a non-zero distance of a/b from a binary64 rounding
        # boundary is >= 2^-(53+11+53) relative, far above the 2^-129 relative error of the wide quotient.
        WIDE = z3.FPSort(15, 130)
        qa = z3.fpDiv(rne, z3.fpSignedToFP(rne, A.t, WIDE), z3.fpSignedToFP(rne, B.t, WIDE))
        q = z3.fpFPToFP(rne, qa, F64)
    return SymFloat(q, lo, hi)


# ---------------------------------------------------------------- text codecs over symbolic bytes (class forks, no value enumeration)


def _t(x):
    return x if isinstance(x, bool) else bool(x)


def any_of_syms(conds):
    """disjunction of bool | SymBool without forking"""
    ts = []
    for q in conds:
        if isinstance(q, bool):
            if q:
                return True
        else:
            ts.append(q.t)
    if not ts:
        return False
    return mkbool(z3.Or(*ts))


def _in(x, lo, hi):
    if isinstance(x, int):
        return lo <= x <= hi
    return _t(x >= lo) and _t(x <= hi)


def _uerr(codec, reason):
    return UnicodeDecodeError(codec, b"\x00", 0, 1, reason)


def utf8_decode(items):
    """strict UTF-8 decoding; a symbolic byte forks on its *class* (lead/continuation ranges), never on its value"""
    items = list(items)
    parts, i, n = [], 0, len(items)
    while i < n:
        b0 = items[i]
        if _t(b0 < 0x80):
            parts.append(("chr", b0))
            i += 1
            continue
        if _t(b0 < 0xC2) or _t(b0 > 0xF4):
            raise _uerr("utf-8", "invalid start byte")
        if _t(b0 < 0xE0):
            need, ranges = 1, [(0x80, 0xBF)]
            cp = b0 & 0x1F
        elif _t(b0 < 0xF0):
            need = 2
            first = (0xA0, 0xBF) if _t(b0 == 0xE0) else ((0x80, 0x9F) if _t(b0 == 0xED) else (0x80, 0xBF))
            ranges = [first, (0x80, 0xBF)]
            cp = b0 & 0x0F
        else:
            need = 3
            first = (0x90, 0xBF) if _t(b0 == 0xF0) else ((0x80, 0x8F) if _t(b0 == 0xF4) else (0x80, 0xBF))
            ranges = [first, (0x80, 0xBF), (0x80, 0xBF)]
            cp = b0 & 0x07
        for k in range(need):
            if i + 1 + k >= n:
                raise _uerr("utf-8", "unexpected end of data")
            bk = items[i + 1 + k]
            if not _in(bk, *ranges[k]):
                raise _uerr("utf-8", "invalid continuation byte")
            cp = (cp << 6) | (bk & 0x3F)
        parts.append(("chr", cp))
        i += need + 1
    return SymStr(parts).norm()


def utf16le_decode(items):
    items = list(items)
    n = len(items)
    parts, i = [], 0
    while i + 1 < n:
        lo, hi = items[i], items[i + 1]
        if _in(hi, 0xD8, 0xDB):
            if i + 3 >= n:
                raise _uerr("utf-16-le", "unexpected end of data")
            lo2, hi2 = items[i + 2], items[i + 3]
            if not _in(hi2, 0xDC, 0xDF):
                raise _uerr("utf-16-le", "illegal UTF-16 surrogate")
            cp = 0x10000 + ((((hi - 0xD8) << 8) | lo) << 10) + (((hi2 - 0xDC) << 8) | lo2)
            parts.append(("chr", cp))
            i += 4
            continue
        if _in(hi, 0xDC, 0xDF):
            raise _uerr("utf-16-le", "illegal encoding")
        parts.append(("chr", (hi << 8) | lo))
        i += 2
    if i < n:
        raise _uerr("utf-16-le", "truncated data")
    return SymStr(parts).norm()


def _enc_cp(cp, codec):
    """bytes of one code point"""
    if isinstance(cp, int):
        return list(chr(cp).encode(codec))
    if codec == "utf-16-le":
        if _t(cp < 0x10000):
            if _in(cp, 0xD800, 0xDFFF):
                raise UnicodeEncodeError(codec, "\ud800", 0, 1, "surrogates not allowed")
            return [cp & 0xFF, cp >> 8]
        v = cp - 0x10000
        h, l = 0xD800 + (v >> 10), 0xDC00 + (v & 0x3FF)
        return [h & 0xFF, h >> 8, l & 0xFF, l >> 8]
    if codec == "utf-8":
        if _t(cp < 0x80):
            return [cp]
        if _t(cp < 0x800):
            return [0xC0 | (cp >> 6), 0x80 | (cp & 0x3F)]
        if _t(cp < 0x10000):
            if _in(cp, 0xD800, 0xDFFF):
                raise UnicodeEncodeError(codec, "\ud800", 0, 1, "surrogates not allowed")
            return [0xE0 | (cp >> 12), 0x80 | ((cp >> 6) & 0x3F), 0x80 | (cp & 0x3F)]
        return [0xF0 | (cp >> 18), 0x80 | ((cp >> 12) & 0x3F), 0x80 | ((cp >> 6) & 0x3F), 0x80 | (cp & 0x3F)]
    from .engine import Unsupported

    raise Unsupported(f"encode({codec}) of a symbolic character")



class SymDict:
    """dict literal / comprehension with symbolic keys: insertion decides key equality with the solver (a path per outcome)"""

    def __init__(self):
        self._k, self._v = [], []

    def _find(self, key):
        for i, k in enumerate(self._k):
            r = k == key
            if r if isinstance(r, bool) else bool(r):
                return i
        return None

    def __setitem__(self, key, value):
        i = self._find(key)
        if i is None:
            self._k.append(key)
            self._v.append(value)
        else:
            self._v[i] = value

    def __getitem__(self, key):
        i = self._find(key)
        if i is None:
            raise KeyError(key)
        return self._v[i]

    def get(self, key, default=None):
        i = self._find(key)
        return default if i is None else self._v[i]

    def __contains__(self, key):
        return self._find(key) is not None

    def __len__(self):
        return len(self._k)

    def __iter__(self):
        return iter(list(self._k))

    def keys(self):
        return list(self._k)

    def values(self):
        return list(self._v)

    def items(self):
        return list(zip(self._k, self._v))

    def update(self, other):
        for k, v in (other.items() if hasattr(other, "items") else other):
            self[k] = v


# ---------------------------------------------------------------- byte strings of symbolic LENGTH


class SymBlob:
    """A byte string whose *length* may be a solver variable: a list of segments
        ("lit", [items])            concrete number of octets (ints / SymInt 0..255)
        ("opq", ident, off, n)      n octets (n: int | SymInt >= 0) of the opaque content `ident`, starting at its offset `off`
    The content of an opaque segment is never inspected; it can be moved, sliced at solver-decided positions, compared for identity.
    This is what lets length arithmetic (padding, alignment, length fields, offsets) be decided for *every* length in a range."""

    kind = "bytes"

    def __init__(self, segs, kind="bytes"):
        out = []
        for s in segs:
            if s[0] == "lit":
                if not s[1]:
                    continue
                if out and out[-1][0] == "lit":
                    out[-1] = ("lit", out[-1][1] + list(s[1]))
                else:
                    out.append(("lit", list(s[1])))
            else:
                n = s[3]
                if isinstance(n, int) and n == 0:
                    continue
                # merge adjacent pieces of the same opaque content
                if out and out[-1][0] == "opq" and out[-1][1] == s[1] and _t((out[-1][2] + out[-1][3]) == s[2]):
                    out[-1] = ("opq", s[1], out[-1][2], out[-1][3] + n)
                else:
                    out.append(s)
        self.segs = out
        self.kind = kind

    # -- construction
    @staticmethod
    def opaque(ident, length):
        return SymBlob([("opq", ident, 0, length)])

    @staticmethod
    def of(x):
        if isinstance(x, SymBlob):
            return x
        return SymBlob([("lit", seq_items(x))])

    def seglen(self, s):
        return len(s[1]) if s[0] == "lit" else s[3]

    def sym_len(self):
        total = 0
        for s in self.segs:
            total = total + self.seglen(s)
        return total

    def __len__(self):
        n = self.sym_len()
        if isinstance(n, int):
            return n
        from .engine import Unsupported

        raise Unsupported("len() of a byte string of symbolic length reached native code")

    def __bool__(self):
        return _t(self.sym_len() > 0)

    def norm(self):
        if not self.segs:
            return b"" if self.kind == "bytes" else (SymByteArray([]) if self.kind == "bytearray" else SymView(SymBytes([])))
        if len(self.segs) == 1 and self.segs[0][0] == "lit":
            if self.kind == "memoryview":
                return SymView(SymBytes(self.segs[0][1]))
            b = SymBytes(self.segs[0][1])
            return b.norm() if self.kind != "bytearray" else SymByteArray(self.segs[0][1])
        return self

    # -- concatenation
    def __add__(self, o):
        if not (is_byteslike(o) or isinstance(o, SymBlob)):
            return NotImplemented
        return SymBlob(self.segs + SymBlob.of(o).segs, self.kind)

    def __radd__(self, o):
        if not (is_byteslike(o) or isinstance(o, SymBlob)):
            return NotImplemented
        return SymBlob(SymBlob.of(o).segs + self.segs, "bytes")

    def __iadd__(self, o):
        if self.kind != "bytearray":
            return self.__add__(o)  # bytes are immutable: += rebinds
        self.segs[:] = SymBlob(self.segs + SymBlob.of(o).segs).segs
        return self

    def tobytes(self):
        return SymBlob(self.segs, "bytes")

    def extend(self, o):
        if self.kind != "bytearray":
            raise AttributeError("'bytes' object has no attribute 'extend'")
        self.segs[:] = SymBlob(self.segs + SymBlob.of(o).segs).segs

    def append(self, v):
        if self.kind != "bytearray":
            raise AttributeError("'bytes' object has no attribute 'append'")
        self.segs[:] = SymBlob(self.segs + [("lit", [v])]).segs

    def ljust(self, width, fill=b" "):
        pad = width - self.sym_len()
        if not isinstance(pad, int):
            pad = 0 if _t(pad <= 0) else alloc_guard(pad)
        return SymBlob(self.segs + [("lit", list(bytes(fill)) * max(pad, 0))], self.kind)

    def rjust(self, width, fill=b" "):
        pad = width - self.sym_len()
        if not isinstance(pad, int):
            pad = 0 if _t(pad <= 0) else alloc_guard(pad)
        return SymBlob([("lit", list(bytes(fill)) * max(pad, 0))] + self.segs, self.kind)

    def copy_as(self, kind):
        return SymBlob([(("lit", list(s[1])) if s[0] == "lit" else s) for s in self.segs], kind)

    # -- positions
    def _split(self, pos):
        """index i such that segments [0:i] have total length pos (splitting a segment if needed)"""
        acc = 0
        for i, s in enumerate(self.segs):
            if _t(pos == acc):
                return i
            ln = self.seglen(s)
            if _t(pos < acc + ln):
                inner = pos - acc
                if s[0] == "lit":
                    k = inner if isinstance(inner, int) else _eng().concretize(inner)
                    self.segs[i : i + 1] = [("lit", s[1][:k]), ("lit", s[1][k:])]
                else:
                    self.segs[i : i + 1] = [("opq", s[1], s[2], inner), ("opq", s[1], s[2] + inner, ln - inner)]
                return i + 1
            acc = acc + ln
        return len(self.segs)

    def _bounds(self, key):
        total = self.sym_len()
        start, stop = key.start, key.stop
        if key.step not in (None, 1):
            from .engine import Unsupported

            raise Unsupported("extended slice of a byte string of symbolic length")
        start = 0 if start is None else start
        stop = total if stop is None else stop
        if _t(start < 0):
            start = start + total
            if _t(start < 0):
                start = 0
        if _t(stop < 0):
            stop = stop + total
            if _t(stop < 0):
                stop = 0
        if _t(stop > total):
            stop = total
        if _t(start > stop):
            start = stop
        return start, stop

    def __getitem__(self, key):
        if isinstance(key, slice):
            start, stop = self._bounds(key)
            work = SymBlob([], self.kind)
            work.segs = [(("lit", list(s[1])) if s[0] == "lit" else s) for s in self.segs]
            i = work._split(start)
            j = work._split(stop)  # stop >= start: cutting there leaves the segments before i untouched
            return SymBlob(work.segs[i:j], self.kind).norm()
        acc = 0
        if isinstance(key, int) and key < 0:
            key = self.sym_len() + key
        for s in self.segs:
            ln = self.seglen(s)
            if _t(key < acc + ln):
                if s[0] != "lit":
                    from .engine import Unsupported

                    raise Unsupported("content of an opaque byte string inspected")
                k = key - acc
                return s[1][k if isinstance(k, int) else _eng().concretize(k)]
            acc = acc + ln
        raise IndexError("index out of range")

    def __setitem__(self, key, value):
        if self.kind == "bytes":
            raise TypeError("'bytes' object does not support item assignment")
        vals = seq_items(value) if not isinstance(value, (int, SymInt)) else None
        if isinstance(key, slice):
            start, stop = self._bounds(key)
            i = self._split(start)
            j = self._split(stop)
            if not isinstance(stop - start, int) or (stop - start) != len(vals):
                if self.kind == "memoryview" or not _t((stop - start) == len(vals)):
                    raise ValueError("memoryview assignment: lvalue and rvalue have different structures")
            self.segs[i:j] = [("lit", list(vals))]
            self.segs[:] = SymBlob(self.segs).segs  # in place: a memoryview shares the list with its bytearray
            return
        raise TypeError("item assignment on a byte string of symbolic length")

    # -- equality: walk both segment lists, cutting at the shorter piece; zero-length pieces are skipped (decided by the solver)
    def __eq__(self, o):
        if not (is_byteslike(o) or isinstance(o, SymBlob)):
            return False
        from .engine import Unsupported

        la, lb = self.sym_len(), SymBlob.of(o).sym_len()
        r = la == lb
        if r is False:
            return False
        conj = [] if r is True else [r.t]
        a = [(("lit", list(s[1])) if s[0] == "lit" else s) for s in self.segs]
        b = [(("lit", list(s[1])) if s[0] == "lit" else s) for s in SymBlob.of(o).segs]

        def ln(s):
            return len(s[1]) if s[0] == "lit" else s[3]

        def cut(s, k):
            if s[0] == "lit":
                kk = k if isinstance(k, int) else _eng().concretize(k)
                return ("lit", s[1][:kk]), ("lit", s[1][kk:])
            return ("opq", s[1], s[2], k), ("opq", s[1], s[2] + k, s[3] - k)

        if not (r is True) and not _t(r):
            return False  # lengths differ on this path
        i = j = 0
        while i < len(a) and j < len(b):
            x, y = a[i], b[j]
            if _t(ln(x) == 0):
                i += 1
                continue
            if _t(ln(y) == 0):
                j += 1
                continue
            if _t(ln(x) == ln(y)):
                i, j = i + 1, j + 1
            elif _t(ln(x) < ln(y)):
                y, rest = cut(y, ln(x))
                b[j] = rest
                i += 1
            else:
                x, rest = cut(x, ln(y))
                a[i] = rest
                j += 1
            if x[0] == "lit" and y[0] == "lit":
                e = SymBytes(x[1]) == SymBytes(y[1])
            elif x[0] == "opq" and y[0] == "opq":
                if x[1] != y[1]:
                    return False
                e = x[2] == y[2]
            else:
                raise Unsupported("an opaque byte string is compared with literal octets")
            if e is False:
                return False
            if e is not True:
                conj.append(e.t)
        for s in a[i:] + b[j:]:
            if not _t(ln(s) == 0):
                return False
        return True if not conj else mkbool(z3.And(*conj))

    def __ne__(self, o):
        r = self.__eq__(o)
        return (not r) if isinstance(r, bool) else SymBool(z3.Not(r.t))

    def __hash__(self):
        from .engine import Unsupported

        raise Unsupported("hash of a byte string of symbolic length")

    def __repr__(self):
        return "SymBlob(" + " ".join(f"lit[{len(s[1])}]" if s[0] == "lit" else f"opq:{s[1]}" for s in self.segs) + ")"


def tobool_term(v):
    return v.t if isinstance(v, SymBool) else z3.BoolVal(bool(v))


def blen(x):
    """length of any byte-string proxy: int or SymInt"""
    return x.sym_len() if isinstance(x, SymBlob) else len(x)


class SymKey:
    """wrapper under which a symbolic key is stored in a real dict (identity hash); lookups compare the wrapped values with the solver"""

    __slots__ = ("value",)

    def __init__(self, value):
        self.value = value

    def __repr__(self):
        return f"SymKey({self.value!r})"


def is_sym_key(k):
    if isinstance(k, (SymSeq, SymStr, SymBlob)):
        return True
    if isinstance(k, SymInt) and k._wide():
        return True
    if isinstance(k, tuple):
        return any(is_sym_key(x) for x in k)
    return False


def sym_equal(a, b):
    """equality decided with the solver (forks when undecided); tuples element-wise"""
    if isinstance(a, tuple) or isinstance(b, tuple):
        if not (isinstance(a, tuple) and isinstance(b, tuple)) or len(a) != len(b):
            return False
        return all(sym_equal(x, y) for x, y in zip(a, b))
    if isinstance(a, SymKey):
        a = a.value
    if isinstance(b, SymKey):
        b = b.value
    try:
        r = a == b
    except TypeError:
        return False
    if isinstance(r, SymBool):
        return bool(r)
    return bool(r)


def dict_find(d, key):
    """the key object of d that equals key, or None"""
    for k in list(d):
        kk = k.value if isinstance(k, SymKey) else k
        if type(kk) is not type(key) and not (is_byteslike(kk) and is_byteslike(key)) and not (isinstance(kk, (int, SymInt)) and isinstance(key, (int, SymInt))):
            continue
        if sym_equal(kk, key):
            return k
    return None

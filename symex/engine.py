"""Path explorer: generational concolic search with decision replay.

A path is a list of decisions ``(taken, aux)``.  The harness is re-executed from scratch for every
path; the prefix is replayed and then extended.  At a new branch the side that the current model
satisfies is followed and the other side is queried: ``sat`` pushes the sibling on the work-list,
``unsat`` prunes it, ``unknown`` is counted and makes the run inconclusive.  The exploration of a
harness is exhaustive (within the harness's bounds) iff the work-list drains and no query was
``unknown`` and no path ended in Unsupported (or a budget overrun, unless the harness treats an overrun
as the property's violation).
"""
from __future__ import annotations

import time

import z3

from .values import SymBool, SymBytes, SymInt, fit


class EngineSignal(BaseException):
    """control-flow exceptions of the engine; never caught by interpreted ``except`` clauses"""


class PathAbort(EngineSignal):
    """current path is infeasible / excluded by an assumption"""


class Unsupported(EngineSignal):
    """the harness met a construct the executor cannot model symbolically -> inconclusive"""


class BudgetExceeded(EngineSignal):
    """per-path step budget overrun"""


class PathResult:
    __slots__ = ("kind", "value", "inputs", "decisions", "steps", "checks", "reached", "kdf_calls", "model")

    def __init__(self, kind, value, inputs, decisions, steps, checks, reached, model=None):
        self.kind, self.value, self.inputs, self.decisions, self.steps = kind, value, inputs, decisions, steps
        self.checks, self.reached, self.model = checks, reached, model

    def __repr__(self):
        return f"<{self.kind} {self.value!r} inputs={self.inputs}>"


def default_value(name, lo, hi):
    """deterministic pseudo-random completion for inputs the solver left unassigned (don't-care): used identically by the native mode"""
    import hashlib

    h = int.from_bytes(hashlib.sha256(name.encode()).digest(), "big")
    return lo + h % (hi - lo + 1)


class Assignment:
    """total assignment of the path's inputs; .eval() evaluates a term under it (API compatible with z3 models)"""

    def __init__(self, vars_, values):
        self.subs = []
        for name, var in vars_.items():
            v = values[name]
            if z3.is_bool(var):
                self.subs.append((var, z3.BoolVal(bool(v))))
            else:
                self.subs.append((var, z3.BitVecVal(v, var.size())))

    def eval(self, t, model_completion=True):
        return z3.simplify(z3.substitute(t, *self.subs))


class Engine:
    current = None
    symbolic = True

    def __init__(self, query_timeout_ms=30000, max_steps=200000):
        self.query_timeout_ms = query_timeout_ms
        self.max_steps = max_steps
        self.stats = dict(paths=0, queries=0, sat=0, unsat=0, unknown=0, solver_s=0.0, aborted=0, decisions=0,
                          concretizations=0, checks=0)
        self.violations = []  # (label, inputs)
        self.work = []

    # ------------------------------------------------------------------ per-path state
    def _reset_path(self, prefix):
        self.solver = z3.Solver()
        self.solver.set("timeout", self.query_timeout_ms)
        self.prefix = prefix
        self.trace = []
        self.model = None
        self.inputs = {}
        self.input_vars = {}
        self.used_vars = set()
        self._seen_terms = set()
        self.at_path_end = []  # callables run before the path's model is taken (may add assumptions that are part of the harness's contract)
        self.steps = 0
        self.path_checks = []  # (label, verdict)
        self.reached = []
        self.counters = {}

    def _check(self, *extra):
        t0 = time.time()
        r = self.solver.check(*extra)
        if r == z3.unknown:
            # the timeout is wall-clock time: on a loaded machine a query that needs a few seconds of CPU can exceed it. One retry with four times
            # the budget; a second `unknown` stands (and makes the run inconclusive).
            self.solver.set("timeout", 4 * self.query_timeout_ms)
            r = self.solver.check(*extra)
            self.solver.set("timeout", self.query_timeout_ms)
            self.stats["retried"] = self.stats.get("retried", 0) + 1
        self.stats["queries"] += 1
        self.stats["solver_s"] += time.time() - t0
        self.stats[str(r)] = self.stats.get(str(r), 0) + 1
        return r

    def _ensure_model(self):
        if self.model is None:
            r = self._check()
            if r != z3.sat:
                raise PathAbort(f"prefix not sat: {r}")
            self.model = self.solver.model()

    def _note_vars(self, t):
        """record the input constants occurring in an asserted formula (everything else is don't-care for the path)"""
        stack = [t]
        seen = self._seen_terms
        while stack:
            x = stack.pop()
            i = x.get_id()
            if i in seen:
                continue
            seen.add(i)
            if z3.is_const(x):
                if x.decl().kind() == z3.Z3_OP_UNINTERPRETED:
                    self.used_vars.add(x.decl().name())
            else:
                stack.extend(x.children())

    def _assert(self, cond):
        self.solver.add(cond)
        self._note_vars(cond)

    def add(self, cond):
        """add a constraint that is known to be consistent with the current model or invalidate the model"""
        self._assert(cond)
        if self.model is not None and not z3.is_true(self.model.eval(cond, model_completion=True)):
            self.model = None

    # ------------------------------------------------------------------ inputs
    def fresh_int(self, name, lo, hi):
        if name in self.inputs:
            raise RuntimeError(f"duplicate symbol {name}")
        if lo == hi:
            return lo
        if lo == 0 and (hi + 1) & hi == 0:
            # unsigned k-bit variable, zero-extended: no range constraint needed
            k = hi.bit_length()
            var = z3.BitVec(name, k)
            v = SymInt(z3.ZeroExt(1, var), lo, hi)
            self.inputs[name] = v
            self.input_vars[name] = var
            return v
        w = fit(lo, hi)
        t = z3.BitVec(name, w)
        v = SymInt(t, lo, hi)
        if lo != -(1 << (w - 1)):
            self.add(t >= lo)
        if hi != (1 << (w - 1)) - 1:
            self.add(t <= hi)
        self.inputs[name] = v
        self.input_vars[name] = t
        return v

    def fresh_bool(self, name):
        if name in self.inputs:
            raise RuntimeError(f"duplicate symbol {name}")
        t = z3.Bool(name)
        v = SymBool(t)
        self.inputs[name] = v
        self.input_vars[name] = t
        return v

    def fresh_bytes(self, name, n):
        items = [self.fresh_int(f"{name}[{i}]", 0, 255) for i in range(n)]
        return SymBytes(items).norm()

    # ------------------------------------------------------------------ decisions
    def decide(self, cond, aux=None) -> bool:
        cond = z3.simplify(cond)
        if z3.is_true(cond):
            return True
        if z3.is_false(cond):
            return False
        i = len(self.trace)
        self.stats["decisions"] += 1
        if i < len(self.prefix):
            taken = self.prefix[i][0]
            self.add(cond if taken else z3.Not(cond))
            self.trace.append((taken, aux))
            return taken
        self._ensure_model()
        taken = z3.is_true(self.model.eval(cond, model_completion=True))
        other = z3.Not(cond) if taken else cond
        r = self._check(other)
        if r == z3.sat:
            self.work.append(self.trace + [(not taken, aux)])
        self._assert(cond if taken else z3.Not(cond))
        self.trace.append((taken, aux))
        return taken

    def tick(self, n=1):
        self.steps += n
        if self.steps > self.max_steps:
            raise BudgetExceeded(f"step budget {self.max_steps} exceeded")

    def count(self, name, n=1):
        self.counters[name] = self.counters.get(name, 0) + n
        return self.counters[name]

    def assume(self, cond):
        if isinstance(cond, bool):
            if not cond:
                raise PathAbort("assume(False)")
            return
        t = cond.t if isinstance(cond, SymBool) else cond
        t = z3.simplify(t)
        if z3.is_true(t):
            return
        if z3.is_false(t):
            raise PathAbort("assume(False)")
        # a precondition is added to the path condition directly: its negation is never explored
        self.add(t)
        if self.model is None and self._check() != z3.sat:
            raise PathAbort("assumption unsatisfiable on this path")

    def concretize(self, v):
        if isinstance(v, int):
            return v
        if isinstance(v, SymBool):
            return self.decide(v.t)
        self.stats["concretizations"] += 1
        while True:
            i = len(self.trace)
            if i < len(self.prefix):
                c = self.prefix[i][1]
                if c is None:
                    raise RuntimeError("replay divergence in concretize")
                if self.decide(v.t == z3.BitVecVal(c, v.w), aux=c):
                    return c
                continue
            # new concretisation point: enumerate the feasible values now (up to a cap) and queue one sibling path per value, so that the
            # alternatives can be explored in parallel instead of being discovered one after the other
            self._ensure_model()
            first = self.model.eval(v.t, model_completion=True).as_signed_long()
            found = [first]
            CAP = 64
            exhausted = False
            self.solver.push()
            try:
                self.solver.add(v.t != z3.BitVecVal(first, v.w))
                while len(found) < CAP:
                    r = self._check()
                    if r != z3.sat:
                        exhausted = r == z3.unsat
                        break
                    c = self.solver.model().eval(v.t, model_completion=True).as_signed_long()
                    found.append(c)
                    self.solver.add(v.t != z3.BitVecVal(c, v.w))
            finally:
                self.solver.pop()
            base = list(self.trace)
            for c in found[1:]:
                self.work.append(base + [(True, c)])
            if not exhausted:
                # more values than the cap: one more sibling that excludes everything enumerated here
                self.work.append(base + [(False, c) for c in found])
            self.stats["decisions"] += 1
            self._assert(v.t == z3.BitVecVal(first, v.w))
            self.trace.append((True, first))
            return first

    def prefer(self, cond):
        """narrow the current path to inputs satisfying cond when that is possible (used to obtain small witnesses); never forks"""
        if cond is None:
            return
        if self._check(cond) == z3.sat:
            self.add(cond)

    def concretize_clamped(self, v, n):
        """concrete value usable as a slice bound of a length-n sequence (Python clamps slice bounds)"""
        if isinstance(v, int):
            return v
        if bool(v >= n):
            return n
        if bool(v <= -n):
            return -n
        return self.concretize(v)

    # ------------------------------------------------------------------ assertions
    def reach(self, label):
        self.reached.append(label)

    def check(self, cond, label=""):
        """assert cond for every input following this path; a counterexample is recorded otherwise.
        Afterwards cond is assumed (so one defect does not cascade)."""
        self.stats["checks"] += 1
        self.reached.append(label)
        if isinstance(cond, SymBool):
            t = z3.simplify(cond.t)
            if z3.is_true(t):
                cond = True
            elif z3.is_false(t):
                cond = False
        if isinstance(cond, bool):
            if not cond:
                for cb in self.at_path_end:
                    cb(self)
                self._ensure_model()
                self._violation(label, self.model)
                self.path_checks.append((label, "violated"))
                raise PathAbort("check failed on the whole path")
            self.path_checks.append((label, "holds"))
            return True
        if not isinstance(cond, SymBool):
            raise TypeError(f"check() needs a bool or SymBool, got {type(cond)}")
        r = self._check(z3.Not(t))
        if r == z3.sat and self.at_path_end:
            # the counterexample must respect the harness's end-of-path assumptions (e.g. no collisions between ideal-primitive outputs)
            self._note_vars(t)
            for cb in self.at_path_end:
                cb(self)
            r = self._check(z3.Not(t))
        if r == z3.sat:
            self._note_vars(t)
            self._violation(label, self.solver.model())
            self.path_checks.append((label, "violated"))
            self.add(t)
            # if cond is false for every input of the path there is nothing left to explore on it
            if self._check() != z3.sat:
                raise PathAbort("check failed on the whole path")
            self.model = None
            return False
        if r == z3.unknown:
            self.path_checks.append((label, "unknown"))
            return None
        self.path_checks.append((label, "holds"))
        return True

    def model_inputs(self, m):
        """total input assignment: the model's value where the solver assigned one, a deterministic default otherwise"""
        out = {}
        for k, v in self.inputs.items():
            used = k in self.used_vars
            if isinstance(v, SymInt):
                if used:
                    out[k] = m.eval(v.t, model_completion=True).as_signed_long()
                else:
                    out[k] = default_value(k, v.lo, v.hi)
            else:
                out[k] = z3.is_true(m.eval(v.t, model_completion=True)) if used else bool(default_value(k, 0, 1))
        return out

    def _violation(self, label, m):
        self.violations.append((label, self.model_inputs(m), list(self.trace)))

    # ------------------------------------------------------------------ exploration
    def explore(self, fn, on_path, prefixes=None, max_paths=None, deadline=None, stop=None):
        """explore the subtrees below ``prefixes`` (default: the whole tree).  Returns the left-over work-list
        (empty iff the exploration of these subtrees was completed)."""
        prev = Engine.current
        Engine.current = self
        self.work = [list(p) for p in (prefixes if prefixes is not None else [[]])]
        n = 0
        try:
            while self.work:
                if max_paths is not None and n >= max_paths:
                    break
                if deadline is not None and time.time() > deadline:
                    break
                if stop is not None and stop():
                    self.stopped = True
                    self.work = []
                    break
                prefix = self.work.pop()
                self._reset_path(prefix)
                self.stats["paths"] += 1
                n += 1
                try:
                    v = fn(self)
                    kind = "return"
                except PathAbort:
                    kind, v = "abort", None
                except BudgetExceeded as e:
                    kind, v = "budget", e
                except Unsupported as e:
                    kind, v = "unsupported", e
                except EngineSignal:
                    raise
                except Exception as e:  # target-level exception
                    kind, v = "raise", e
                try:
                    for cb in self.at_path_end:
                        cb(self)
                    self._ensure_model()
                    inputs = self.model_inputs(self.model)
                except PathAbort:
                    self.stats["aborted"] += 1
                    continue
                if kind == "abort":
                    self.stats["aborted"] += 1
                    if not self.path_checks:
                        continue
                pr = PathResult(kind, v, inputs, list(self.trace), self.steps, list(self.path_checks), list(self.reached),
                                Assignment(self.input_vars, inputs))
                on_path(pr)
        finally:
            Engine.current = prev
        return self.work
